"""Check registry: which harnesses decide which property, with their bounds per tier."""

ALLOC = 128 * 1024  # 16 x MaxMatchingBytes (DESIGN section 5, C04)


def H(name, quick=None, thorough=None, **kw):
    d = {"name": name}
    if quick is not None:
        d["quick"] = {"params": quick} if not ("params" in quick or "unwind" in quick or "preempt" in quick) else quick
    if thorough is not None:
        d["thorough"] = {"params": thorough} if not ("params" in thorough or "unwind" in thorough or "preempt" in thorough) else thorough
    d.update(kw)
    return d


C04_OPTS = {"alloc_limit": ALLOC}
CHECKS = {
    "C04": {
        "harnesses": [
            H("c04.VH_postgres", {"L": 16}, {"L": 20}, opts=C04_OPTS, covers=["match returned"], weight=3),
            H("c04.VH_ssh", {"L": 8}, {"L": 16}, opts=C04_OPTS, covers=["match returned"]),
            H("c04.VH_xmpp", {"L": 56}, {"L": 64}, opts=C04_OPTS, covers=["match returned"]),
            H("c04.VH_socks4", {"L": 12}, {"L": 16}, opts=C04_OPTS, covers=["match returned"]),
            H("c04.VH_socks4_filter", {"L": 12}, {"L": 16}, opts=C04_OPTS, covers=["match returned"]),
            H("c04.VH_socks5", {"L": 10}, {"L": 40}, opts=C04_OPTS, covers=["match returned"]),
            H("c04.VH_socks5_filter", {"L": 10}, {"L": 40}, opts=C04_OPTS, covers=["match returned"]),
            H("c04.VH_proxyproto", {"L": 16}, {"L": 20}, opts=C04_OPTS, covers=["match returned"]),
            H("c04.VH_regexp", {"L": 8}, {"L": 12}, opts=C04_OPTS, covers=["match returned"]),
            H("c04.VH_regexp_default", {"L": 6}, {"L": 8}, opts=C04_OPTS, covers=["match returned"]),
            H("c04.VH_wireguard", {"L": 150}, {"L": 160}, opts=C04_OPTS, covers=["match returned"]),
            H("c04.VH_wireguard_zero", {"L": 150}, {"L": 160}, opts=C04_OPTS, covers=["match returned"]),
            H("c04.VH_winbox", {"params": {"L": 42}}, {"params": {"L": 300}, "unwind": 320}, opts=C04_OPTS, covers=["match returned"]),
            H("c04.VH_winbox_frombytes", {"params": {}, "unwind": 600}, {"params": {}, "unwind": 600}, opts=C04_OPTS, covers=["match returned"], weight=4),
            H("c04.VH_winbox_big", None, {"params": {"L": 258, "LMIN": 256}, "unwind": 320, "timeout_ms": 300000}, opts=C04_OPTS, covers=["match returned"], weight=8, tiers=("thorough",)),
            H("c04.VH_winbox_filter", {"L": 42}, {"L": 48}, opts=C04_OPTS, covers=["match returned"]),
            H("c04.VH_winbox_user", {"L": 42}, {"L": 48}, opts=C04_OPTS, covers=["match returned"]),
            H("c04.VH_rdp", {"L": 19}, {"L": 22}, opts=C04_OPTS, covers=["match returned"], weight=4),
            H("c04.VH_rdp_filter", {"L": 19}, {"L": 21}, opts=C04_OPTS, covers=["match returned"]),
            H("c04.VH_rdp_deep", {"L": 58}, {"L": 64}, opts=C04_OPTS, covers=["match returned", "deep payload matched"], weight=2),
            H("c04.VH_rdp_token", {"L": 19}, {"L": 21}, opts=C04_OPTS, covers=["match returned"]),
            H("c04.VH_openvpn_tcp", {"L": 90}, {"L": 96}, opts=C04_OPTS, covers=["match returned"]),
            H("c04.VH_openvpn_udp", {"L": 88}, {"L": 96}, opts=C04_OPTS, covers=["match returned"]),
            H("c04.VH_openvpn_crypt2_tcp", {"L": 1082}, {"L": 1090}, opts=C04_OPTS, covers=["match returned"]),
            H("c04.VH_openvpn_crypt2_udp", {"L": 1080}, {"L": 1090}, opts=C04_OPTS, covers=["match returned"]),
            H("c04.VH_tls", {"L": 54}, {"L": 55}, opts=C04_OPTS, covers=["match returned"], weight=4),
            H("c04.VH_quic_tcp", {"L": 4}, {"L": 8}, opts=C04_OPTS, covers=["match returned"]),
            H("c04.VH_dns_tcp", {"L": 16}, {"L": 20}, opts=C04_OPTS, covers=["match returned"], validate=False),
            H("c04.VH_dns_udp", {"L": 16}, {"L": 20}, opts=C04_OPTS, covers=["match returned"], validate=False),
            H("c04.VH_dns_rules", {"L": 14, "NQ": 1}, {"L": 14, "NQ": 2}, opts=C04_OPTS, covers=["match returned"], validate=False, env_only=True),
            H("c04.VH_dns_rules_both", {"L": 14, "NQ": 1}, {"L": 14, "NQ": 1}, opts=C04_OPTS, covers=["match returned"], validate=False, env_only=True),
            # handlers that parse remote input before any matcher-approved route: the PROXY protocol handler on its three header kinds
            H("c01.VH_step_proxyproto", {"params": {"READS": 1, "OFFSET0": 1, "MAXB": 200, "MAXD": 100, "ROUNDS": 2}}, {"params": {"READS": 1, "OFFSET0": 1, "MAXB": 5000, "MAXD": 1000, "ROUNDS": 2}, "timeout_ms": 60000}, covers=["recorder ran"], validate=False),
            H("c04.VH_http_ishttp", {"L": 24}, {"L": 64}, opts=C04_OPTS, covers=["match returned"]),
            H("c04.VH_http_match", {"L": 24}, {"L": 64}, opts=C04_OPTS, covers=["match returned"]),
            # the matching buffer itself must stay bounded whatever a matcher keeps asking for (shared with C05)
            H("c05.VH_tcp", {"ROUNDS": 7, "TIMEOUTS": 1, "L": 12000, "FLOOD": 1}, {"ROUNDS": 8, "TIMEOUTS": 2, "L": 14000, "FLOOD": 1}, variant="flood",
              opts=C04_OPTS, covers=["buffer exhausted"], validate=False, weight=2),
        ],
        "level_text": "bounded model checking: every matcher's real Match is executed symbolically on an arbitrary byte string up to the per-matcher length bound, over TCP- or UDP-like local addresses, in default and filtered configurations; every Go run-time check (index, slice, nil, divide, make size) and every make([]byte,n) above 128 KiB is an SMT query; counterexamples are replayed against the real build",
        "level_note": "inputs longer than the stated bound are outside the claim; third-party back ends (miekg/dns Unpack/Len are havoc stubs; net/http, hpack, quic-go, the PROXY-protocol library parser are not executed); regexp semantics via an NFA simulation of regexp/syntax; TLS and QUIC matchers run unprovisioned (no sub-matchers)",
        "assumptions": [
            "dns.Msg.Unpack / Len replaced by havoc stubs (any result, no panic): the third-party parser is outside the claim",
            "allocation limit fixed at 128 KiB = 16 x MaxMatchingBytes",
        ],
        "outside": ["inputs longer than the per-matcher bound L", "net/http, http2/hpack, quic-go, miekg/dns, mastercactapus/proxyprotocol internals", "QUIC matcher beyond its first-byte checks"],
        "bounds": {"quick": "L per matcher: postgres 16, ssh 8, xmpp 56, socks4 12, socks5 10, proxy_protocol 16, regexp 8, wireguard 150, winbox 42 and 255..260, rdp 19, openvpn 90 / 1082 (crypt2), tls 54, dns 16, isHttp 24",
                   "thorough": "postgres 20, socks5 40, winbox 300, rdp 22, tls 55, isHttp 64, openvpn 96/1090"},
    },
}

CHECKS["C18"] = {
    "harnesses": [
        H("c18.VH_ovpn_header", {}, {}, covers=["accepted", "rejected"]),
        H("c18.VH_ovpn_plain", {}, {}, covers=["accepted", "rejected"]),
        H("c18.VH_ovpn_auth", {}, {}, covers=["accepted", "rejected"]),
        H("c18.VH_ovpn_crypt", {}, {}, covers=["accepted", "rejected"]),
        H("c18.VH_ovpn_crypt2", {}, {}, covers=["accepted", "rejected"]),
        H("c18.VH_ovpn_wrappedkey", {}, {}, covers=["accepted", "rejected"]),
        H("c18.VH_ovpn_plain_fields", {}, {}, covers=["accepted", "rejected"]),
        H("c18.VH_ovpn_auth_fields", {}, {}, covers=["accepted"]),
        H("c18.VH_wg_initiation", {}, {}, covers=["accepted", "rejected"]),
        H("c18.VH_wg_transport", {}, {}, covers=["accepted", "rejected"]),
        H("c18.VH_wg_initiation_fields", {}, {}, covers=["accepted"]),
        H("c18.VH_rdp_tpkt", {}, {}, covers=["accepted", "rejected"]),
        H("c18.VH_rdp_x224", {}, {}, covers=["accepted", "rejected"]),
        H("c18.VH_rdp_negreq", {}, {}, covers=["accepted", "rejected"]),
        H("c18.VH_rdp_corrinfo", {}, {}, covers=["accepted", "rejected"]),
        H("c18.VH_rdp_token", {}, {}, covers=["accepted", "rejected"]),
        H("c18.VH_rdp_negreq_fields", {}, {}, covers=["accepted"]),
        H("c18.VH_winbox_auth", {"L": 44}, {"params": {"L": 300}, "unwind": 320}, covers=["accepted", "rejected"], weight=3),
        H("c18.VH_winbox_fields", {"UMIN": 1, "UMAX": 6}, {"UMIN": 1, "UMAX": 9}, covers=["accepted", "romon"], weight=2),
        H("c18.VH_winbox_boundary", {"params": {}, "unwind": 600}, {"params": {}, "unwind": 600}, covers=["accepted"]),
    ],
    "level_text": "bounded model checking of every exported FromBytes/ToBytes pair over the real message sizes: for every byte string within max+2 bytes, acceptance implies a legal length and ToBytes(FromBytes(b)) == b (refuted with a fresh symbolic index, so no per-byte bound); serialise-then-parse for messages built from arbitrary field values",
    "level_note": "binary.Read/Write on fixed-layout values are engine intrinsics (type-directed encode/decode, validated natively per run by path replay); bytes.Buffer, byte-order helpers and the repository code are executed from SSA; crypto (HMAC/AES) is not involved in the codecs' framing",
    "assumptions": ["encoding/binary.Read/Write modelled by a type-directed intrinsic (fixed-size integers, byte arrays, structs)"],
    "outside": ["Winbox messages longer than the harness bound (44 quick / 300 thorough)", "FromBytesCrypt/ToBytesCrypt (encrypted sub-structures) and key-file parsers"],
    "bounds": {"quick": "real sizes: openvpn 1/14/38-86/54/343-1077/290-1024 bytes (+2), wireguard 148/32+, rdp 4/7/8/36/11+, winbox <= 44", "thorough": "winbox <= 300 (two chunks)"},
}

CHECKS["C10"] = {
    "harnesses": [
        H("c10.VH_first", {"N": 4}, {"N": 6}, covers=["one selected", "none selected"]),
        H("c10.VH_least_conn", {"N": 3}, {"N": 5}, covers=["one selected", "none selected"], weight=2),
        H("c10.VH_random", {"N": 3}, {"N": 5}, covers=["one selected", "none selected"]),
        H("c10.VH_random_choose", {"N": 3}, {"N": 4}, covers=["one selected", "none selected"], weight=2),
        H("c10.VH_round_robin", {"N": 3}, {"N": 4}, covers=["one selected", "none selected", "cycle of two or more"], weight=4),
        H("c10.VH_round_robin_wrap", {"N": 3}, {"N": 3}, covers=[], weight=3),
        H("c10.VH_ip_hash", {"N": 3}, {"N": 4}, covers=["one selected", "none selected", "leaver", "pool with unavailable members"], weight=3, validate=False, native_replay=False),
        H("c10r.VH_ip_hash", {"N": 3}, {"N": 4}, covers=["one selected", "none selected", "leaver", "pool with unavailable members"], weight=3),
    ],
    "level_text": "bounded model checking of every selection policy's real Select on pools of 0..N upstreams whose per-peer health/failure/connection state, limits, random draws, round-robin counter and hash values are symbolic; the oracle is a reference availability predicate written from the documentation (not the repository's available()), plus the per-policy contract",
    "level_note": "pool size bounded (quick 0..3/4, thorough up to 4..6); numConns/fails/max_connections in 0..2; one upstream may have two peers; math/rand draws are arbitrary values in their documented range; ip_hash's FNV hash is replaced by an arbitrary deterministic function (uninterpreted), which over-approximates the real hash; round_robin counter = base + 8 symbolic bits",
    "assumptions": ["math/rand.Int/Intn return any value of their documented range", "l4proxy.hash replaced by an arbitrary deterministic function of its argument", "round-robin counter start = {0, 0x7FFFFF00, 0xFFFFF000, 0xFFFFFF00(wrap harness)} + 8 symbolic bits"],
    "outside": ["pools larger than the bound", "selection sequences longer than one cycle", "concurrent selections (see C08)"],
    "bounds": {"quick": "pool 0..3 (first 0..4)", "thorough": "pool 0..4..6"},
}

def _c02():
    hs = []
    for a in range(3):
        for b in range(3):
            hs.append(H("c02.VH_routes", {"R": 2, "KIND0": a, "KIND1": b, "L": 3, "ROUNDS": 3}, {"R": 2, "KIND0": a, "KIND1": b, "L": 4, "ROUNDS": 4},
                        variant=f"r2k{a}{b}", weight=2 + a + b, covers=["fallback ran"]))
    hs.append(H("c02.VH_routes", {"R": 1, "SETS": 2, "L": 3, "ROUNDS": 3}, {"R": 1, "SETS": 2, "L": 4, "ROUNDS": 4}, variant="r1or", weight=3,
                covers=["fallback ran", "terminal route ran", "non-terminal route ran", "matching aborted at end of stream"]))
    quick3 = [(2, 0, 0), (2, 1, 0), (1, 2, 0), (2, 2, 0)]
    for a in range(3):
        for b in range(3):
            for c in range(3):
                tiers = ("quick", "thorough") if (a, b, c) in quick3 else ("thorough",)
                hs.append(H("c02.VH_routes", {"R": 3, "KIND0": a, "KIND1": b, "KIND2": c, "AND": 0, "L": 3, "ROUNDS": 3},
                            {"R": 3, "KIND0": a, "KIND1": b, "KIND2": c, "AND": 0, "L": 4, "ROUNDS": 3}, variant=f"r3k{a}{b}{c}", weight=4, tiers=tiers))
    for ik in range(3):
        tiers = ("quick", "thorough") if ik in (0, 1) else ("thorough",)
        hs.append(H("c02.VH_subroute", {"R": 2, "KIND0": 3, "KIND1": 0, "IKIND0": ik, "AND": 0, "L": 3, "ROUNDS": 3, "CONNS": 2},
                    {"R": 2, "KIND0": 3, "KIND1": 0, "IKIND0": ik, "AND": 0, "L": 3, "ROUNDS": 3, "CONNS": 2}, variant=f"sub{ik}", weight=5,
                    tiers=tiers, covers=["subroute entered", "subroute fell through"] if ik else ["subroute entered"]))
    return hs


CHECKS["C02"] = {
    "harnesses": _c02(),
    "level_text": "bounded model checking of the real RouteList.Compile closure, MatcherSet.Match, MatcherSets.AnyMatch and the subroute handler: route lists of 1-3 routes (and/or structure, terminal / pass-through / consuming handlers, one nested subroute, two successive connections through the same handlers), streams up to 3-4 bytes with every segmentation, content-dependent matchers with symbolic needs; an order-independent oracle asserts on every handler and fallback invocation exactly what the property states",
    "level_note": "matchers are harness matchers At{N,K} (need N bytes, match iff the N-th byte equals K; N, K symbolic) - the shipped protocol matchers are covered by C04/C06/C14; streams, needs and rounds are small (pigeonhole-sized for 2-3 routes); the client ends its stream with EOF; 'random larger instances' of the property's quantifier are outside this technique; `not` is checked in C14",
    "assumptions": ["client connection = SymConn: every Read returns an arbitrary non-empty segment of the remaining stream, then io.EOF", "zap logging is a no-op stub"],
    "outside": ["route lists longer than 3, streams longer than 4 bytes, more than 4 arrival rounds", "matching timeout behaviour (C05)", "listener-wrapper fallback (C13)"],
    "bounds": {"quick": "R<=3 (subset of handler-kind combinations for R=3), L<=3, <=3 rounds, N<=2", "thorough": "R<=3 all 27 combinations, L<=4, <=4 rounds"},
}

CHECKS["C01"] = {
    "harnesses": [
        H("c01.VH_read_step", {}, {}, covers=["served from the buffer", "matching mode, buffer consumed", "served from the network"]),
        H("c01.VH_prefetch_step", {}, {}, covers=["buffer full", "read in place", "read through a pooled chunk"]),
        H("c01.VH_match_step", {}, {}, covers=["matcher read bytes"]),
        H("c01.VH_wrap_step", {}, {}, covers=["unread bytes at Wrap time", "drained at Wrap time", "read past the bytes buffered at Wrap time"]),
        H("c01.VH_step_rec", {"READS": 2}, {"READS": 3}, covers=["recorder ran", "bytes buffered at handler time", "more than 4096 bytes buffered", "read to EOF"], weight=3),
        H("c01.VH_step_wrap", {"READS": 2}, {"READS": 3}, covers=["wrapping handler ran", "recorder ran", "more than 4096 bytes buffered"], weight=4),
        H("c01.VH_step_throttle", {"READS": 2}, {"READS": 3}, covers=["recorder ran", "more than 4096 bytes buffered"], weight=3),
        H("c01.VH_step_proxyproto", {"params": {"READS": 1, "OFFSET0": 1, "MAXB": 5000, "MAXD": 1000, "ROUNDS": 2}, "timeout_ms": 60000},
          {"params": {"READS": 2, "OFFSET0": 0, "MAXB": 9000, "MAXD": 1000, "ROUNDS": 2}, "timeout_ms": 120000},
          covers=["recorder ran", "more than 4096 bytes buffered"], weight=5),
        H("c01.VH_step_tee", {"MAXB": 3000}, {"MAXB": 5000}, covers=["recorder ran", "bytes buffered at handler time", "read to EOF"], weight=8, validate=False),
        H("c01.VH_core", {"ROUNDS": 2, "READS": 2}, {"ROUNDS": 3, "READS": 2}, covers=["recorder ran", "buffer grew beyond the pooled capacity", "read to EOF"], weight=4),
        H("c01.VH_two_matchers", {"ROUNDS": 2}, {"ROUNDS": 3}, covers=["recorder ran"], weight=8),
        H("c01.VH_wrap", {"ROUNDS": 2}, {"ROUNDS": 3}, covers=["recorder ran", "wrapping handler ran"], weight=5),
    ],
    "level_text": "bounded model checking with the real constants (2048-byte prefetch chunk, 8192-byte limit, bufio's 4096): (1) one-step lemmas from an arbitrary Connection state satisfying the representation invariant - Read, prefetch, MatcherSet.Match(freeze/unfreeze) preserve the abstract stream buf[offset:]++unread; (2) every shipped wrapping handler (proxy_protocol with its real bufio.Reader, tee with its real io.Pipe and goroutine, throttle, a TLS-shaped drain-and-Wrap handler) started from an arbitrary post-matching state (up to 10239 buffered bytes, symbolic offset) followed by a recorder whose every read must continue the client's stream; (3) whole Compile runs over 2-3 prefetch rounds on streams up to 24 KiB",
    "level_note": "the stream starts with one of three concrete valid PROXY headers (v2 LOCAL, v2 TCP4, v1 TCP4) and the library parser is replaced by 'consume exactly that header from the handler's bufio.Reader' - the native twin runs the real parser on the same bytes; TLS is represented by a handler that reads through cx at least everything prefetched and then calls cx.Wrap (a conforming client cannot send its second flight before the server's first) - crypto/tls itself is not executed; tee runs in the engine's goroutine mode (cooperative schedule, no pre-emption); the echo handler's io.Copy loop is not covered (queries undecided within the time slice); whole-chain runs are limited to 2 (quick) / 3 (thorough) prefetch rounds",
    "assumptions": ["proxyprotocol.Parse replaced by: discard the (concrete, valid) header from the bufio.Reader, succeed", "TLS-shaped handler: consumes at least all prefetched bytes before Wrap", "client = SymConn (arbitrary non-empty segments, then EOF)"],
    "outside": ["echo handler", "crypto/tls record layer", "more than 3 prefetch rounds in whole-chain runs (the one-step lemmas cover any number)", "streams above 24 KiB"],
    "bounds": {"quick": "buffer <= 10239, offset symbolic, stream <= 24 KiB, 2 rounds, 2 reads per handler", "thorough": "3 rounds, 3 reads"},
}

CHECKS["C05"] = {
    "harnesses": [
        H("c05.VH_tcp", {"ROUNDS": 2, "TIMEOUTS": 2, "L": 5000, "NEEDMAX": 6000}, {"ROUNDS": 3, "TIMEOUTS": 4, "L": 5000, "NEEDMAX": 6000}, variant="trickle",
          covers=["matching timed out", "route handler ran"], validate=False, weight=3),
        H("c05.VH_tcp", {"ROUNDS": 7, "TIMEOUTS": 1, "L": 12000, "FLOOD": 1}, {"ROUNDS": 8, "TIMEOUTS": 2, "L": 14000, "FLOOD": 1}, variant="flood",
          covers=["buffer exhausted", "matching timed out", "route handler ran"], validate=False, weight=2),
        H("c05.VH_server", {"ROUNDS": 2, "TIMEOUTS": 2}, {"ROUNDS": 3, "TIMEOUTS": 4}, covers=["server handled", "route handler ran"], validate=False, weight=2),
        H("c05.VH_tcp_after_match", {"ROUNDS": 2, "TIMEOUTS": 2}, {"ROUNDS": 3, "TIMEOUTS": 4}, covers=["non-terminal route ran", "matching timed out"], validate=False, weight=2, env_only=True),
        H("c05.VH_udp_rearm", {}, {}, covers=["udp read timed out"], validate=False, env_only=True),
        H("c05.VH_udp_after_match", {"TIMEOUTS": 2}, {"TIMEOUTS": 4}, covers=["udp handler read ended"], validate=False, env_only=True),
        H("c01.VH_prefetch_step", {}, {}, covers=["buffer full", "read in place", "read through a pooled chunk"]),
        H("c05.VH_udp_deadline", {}, {}, covers=["udp read timed out"], validate=False),
        H("c05.VH_udp_data", {}, {}, covers=["udp data delivered"], validate=False),
    ],
    "level_text": "bounded model checking on a virtual clock: the wall-clock phase (seconds and nanoseconds) of the start instant is symbolic, elapsed time is a discrete-event clock, package time itself (Add, Sub, Before, Until, Unix...) is executed from its own SSA; the real Compile/prefetch/Server.handle and the UDP packetConn deadline code run against a client that honours the armed deadline exactly like a socket; asserted: one absolute deadline per matching phase, timeout never before and never after start+timeout, buffer <= limit + one chunk, fail closed (no handler, connection closed), deadline cleared for handlers and fallback, UDP deadline neither early nor late",
    "level_note": "timeouts from {1 ms, 500 ms, 1 s, 3 s}; client delays from {0, timeout/4, >= timeout}; <= 2-3 (trickle) / 7-8 (flood) reads; timers fire 1 ns late (smallest representable latency); Time.UnixNano of a symbolic instant is modelled as an uninterpreted positive value that time.Unix(0,.) maps back (no 64-bit multiplication/division by 10^9 in the solver); not replayable natively (the wall clock cannot be steered), so no path-replay validation for this property; OS scheduling slack is outside",
    "assumptions": ["virtual clock: symbolic start phase, concrete elapsed time, timers fire 1 ns after their instant", "client read contract: data arriving before the armed deadline is delivered, otherwise os.ErrDeadlineExceeded exactly at the deadline"],
    "outside": ["operating-system scheduling slack", "matching timeouts other than the four values", "servePacket's goroutines (C09)"],
    "bounds": {"quick": "2 timeouts x 3 delays x 2 rounds; flood 7 reads of 2048", "thorough": "4 timeouts, 3 rounds; flood 8 reads"},
}

_c06cov = ["prefix needs more", "prefix says no", "whole message matches"]
CHECKS["C06"] = {
    "harnesses": [
        H("c06.VH_ssh", {"L": 8}, {"L": 12}, covers=_c06cov),
        H("c06.VH_xmpp", {"L": 54}, {"L": 60}, covers=_c06cov),
        H("c06.VH_postgres", {"L": 14}, {"L": 18}, covers=_c06cov, weight=2),
        H("c06.VH_socks4", {"L": 10}, {"L": 12}, covers=_c06cov),
        H("c06.VH_socks4_filter", {"L": 10}, {"L": 12}, covers=_c06cov),
        H("c06.VH_socks5", {"L": 8}, {"L": 12}, covers=_c06cov),
        H("c06.VH_socks5_filter", {"L": 8}, {"L": 12}, covers=_c06cov),
        H("c06.VH_proxyproto", {"L": 14}, {"L": 16}, covers=_c06cov),
        H("c06.VH_regexp", {"L": 7}, {"L": 9}, covers=_c06cov),
        H("c06.VH_tls", {"L": 52}, {"L": 55}, covers=_c06cov, weight=8),
        H("c06.VH_rdp", {"L": 16}, {"L": 19}, covers=_c06cov, weight=2),
        H("c06.VH_winbox", {"L": 40}, {"L": 44}, covers=_c06cov, weight=2),
        H("c06.VH_openvpn", {"L": 58}, {"L": 90}, covers=_c06cov, validate=False),
        H("c06.VH_http", {"L": 16}, {"L": 24}, covers=["prefix needs more", "prefix says no"]),
        # matcher SETS (and/or structure): "need more" of one set is not turned into a definite no by another
        H("c02.VH_routes", {"R": 1, "SETS": 2, "L": 3, "ROUNDS": 3}, {"R": 1, "SETS": 2, "L": 4, "ROUNDS": 4}, variant="r1or", weight=3,
          covers=["fallback ran", "terminal route ran", "matching aborted at end of stream"]),
    ],
    "level_text": "bounded model checking, per stream matcher: the real Match runs (through MatcherSet.Match, i.e. with freeze/unfreeze) on one symbolic byte string D and on every prefix D[:P] (P symbolic) under one path condition; asserted: no read from the network, buffer and read position unchanged, same verdict when repeated on the same connection, 'no' on a prefix stays 'no' on the whole, and a message that matches whole is never rejected or failed on a proper prefix (only 'need more' or already 'yes')",
    "level_note": "per-matcher length bounds as listed; HTTP only for inputs its request-line heuristic does not accept (beyond that it is net/http); DNS excluded (its third-party parser is a havoc stub and therefore not a function of the bytes); openvpn with ignore_timestamp; TLS without sub-matchers",
    "assumptions": ["the connection under test is a Connection in matching mode pre-loaded with the bytes; the underlying conn asserts it is never read"],
    "outside": ["messages longer than the per-matcher bound", "HTTP requests accepted by the heuristic (net/http)", "DNS", "QUIC"],
    "bounds": {"quick": "ssh 8, xmpp 54, postgres 14, socks4 10, socks5 8, proxy_protocol 14, regexp 7, tls 52, rdp 16, winbox 40, openvpn 58, http 16", "thorough": "+2..6 bytes each, openvpn 90"},
}

_c14 = ["well-formed", "violating"]
CHECKS["C14"] = {
    "harnesses": [
        H("c14.VH_ssh", {}, {}, covers=_c14), H("c14.VH_xmpp", {}, {}, covers=_c14), H("c14.VH_proxyproto", {}, {}, covers=_c14),
        H("c14.VH_socks4", {}, {}, covers=_c14), H("c14.VH_socks4_filter", {}, {}, covers=_c14),
        H("c14.VH_socks5", {}, {}, covers=_c14), H("c14.VH_socks5_filter", {}, {}, covers=_c14), H("c14.VH_socks5_unsorted", {}, {}, covers=_c14),
        H("c14.VH_regexp", {}, {}, covers=_c14), H("c14.VH_wireguard", {}, {}, covers=_c14), H("c14.VH_wireguard_zero", {}, {}, covers=_c14),
        H("c14.VH_postgres", {}, {}, covers=_c14 + ["startup message"], weight=2), H("c14.VH_ishttp", {}, {}, covers=_c14, weight=2),
        H("c14.VH_not", {}, {}, covers=_c14 + ["undecided"]), H("c14.VH_ip", {}, {}, covers=_c14),
        H("c14.VH_clock", {}, {}, covers=_c14, validate=False), H("c14.VH_dns_rules", {}, {}, covers=_c14),
        H("c14.VH_winbox", {}, {}, covers=_c14, weight=3), H("c14.VH_winbox_romon", {}, {}, covers=_c14, weight=3), H("c14.VH_winbox_user", {}, {}, covers=_c14, weight=3),
        H("c14.VH_openvpn_plain_tcp", {}, {}, covers=_c14), H("c14.VH_openvpn_plain_udp", {}, {}, covers=_c14), H("c14.VH_rdp_negreq", {}, {}, covers=_c14, weight=2), H("c14.VH_rdp_corrinfo", {}, {}, covers=_c14, weight=3),
        H("c14.VH_openvpn_auth_tcp", {}, {}, covers=_c14, weight=2), H("c14.VH_openvpn_auth_udp", {}, {}, covers=_c14, weight=2), H("c14.VH_openvpn_auth_ts_udp", {}, {}, covers=_c14, weight=2),
    ],
    "level_text": "bounded model checking against reference predicates written from the wire definitions (not from the matcher code): for every complete first message within the bound the real Match must accept every well-formed message that satisfies the configured filters and reject every message that violates a mandatory field or a filter; regions the definitions leave open are don't-care",
    "level_note": "decided for ssh, xmpp, proxy_protocol, socks4 (commands/ports/CIDRs), socks5 (method lists), regexp (cross-checks the engine's NFA model against a direct byte predicate), wireguard (+zero filter), postgres (SSLRequest, v3 startup, version and length violations), isHttp, not, remote_ip/local_ip (concrete v4/v6/v4-mapped addresses at CIDR boundaries), clock (symbolic second of day, 4 window/zone configurations incl. swap and 24:00), dns rule combination (class/type/name symbolic over a finite set; the third-party wire parser is replaced under the engine, the native twin packs and parses a real query), winbox single-chunk auth messages (user names of 1-5 bytes incl. the +r suffix, modes, user-name filter, parity, framing), openvpn plain mode over TCP and UDP, openvpn tls-auth mode without a key over TCP and UDP (HMAC size set, replay packet id, the +-15 s net_time window against the symbolic clock incl. its nanosecond boundary), rdp connection requests carrying only an rdpNegReq (flags/protocol rules) or rdpNegReq + rdpCorrelationInfo (id rules; CR allowed at two id positions), socks5 with an unsorted method list. Not decided: openvpn crypt/crypt2 modes and HMAC verification, multi-chunk winbox, rdp cookies/tokens (their parsers are covered for safety/round-trip by C04/C18 and for fragmentation by C06), http beyond the request-line heuristic, quic",
    "assumptions": ["dns.Msg.Unpack/Len replaced by a scripted result (one question, class/type/name from a finite set)", "clock: wrap time pinned through the replacer key l4.conn.wrap_time"],
    "outside": ["openvpn crypt/crypt2 and keyed tls-auth, multi-chunk winbox, rdp cookie/token reference predicates", "net/http, quic-go, miekg/dns wire parsing", "time-zone database (only fixed offsets and UTC)"],
    "bounds": {"quick": "message lengths: ssh 8, xmpp 54, proxy_protocol 16, socks4 10, socks5 8, regexp 6, wireguard 150, postgres 14, isHttp 24", "thorough": "same"},
}

CHECKS["C07"] = {
    "harnesses": [
        H("c07.VH_parse", {"EXT": 10}, {"EXT": 12}, variant="free", covers=["accepted by crypto/tls", "rejected by crypto/tls", "server name present", "alpn present"], weight=6),
        H("c07.VH_parse", {"EXT": 8, "PRE": 1}, {"EXT": 10, "PRE": 1}, variant="after-ticket", covers=["accepted by crypto/tls", "alpn present"], weight=6),
        H("c07.VH_parse", {"EXT": 7, "PRE": 2}, {"EXT": 10, "PRE": 2}, variant="after-points", covers=["accepted by crypto/tls"], weight=4),
        H("c07.VH_parse", {"EXT": 7, "PRE": 3}, {"EXT": 10, "PRE": 3}, variant="after-reneg", covers=["accepted by crypto/tls"], weight=4, tiers=("thorough",)),
        H("c07.VH_parse", {"EXT": 7, "PRE": 4}, {"EXT": 10, "PRE": 4}, variant="after-sct", covers=["accepted by crypto/tls"], weight=4, tiers=("thorough",)),
        H("c07.VH_parse", {"EXT": 0, "VERS": 1}, {"EXT": 7, "VERS": 1}, variant="versions", covers=["accepted by crypto/tls"], weight=1),
        H("c07.VH_alpn", {"EXT": 10}, {"EXT": 12}, covers=["accepted by crypto/tls", "alpn matches"], weight=6),
        H("c07.VH_alpn", {"EXT": 9, "EMPTYCFG": 1}, {"EXT": 11, "EMPTYCFG": 1}, variant="empty-config-value", covers=["accepted by crypto/tls", "alpn matches"], weight=5),
        H("c07.VH_two_hellos", {}, {}, covers=["second hello matched"], weight=1),
        H("c07.VH_record", {"L": 50}, {"L": 53}, covers=["header incomplete", "not a handshake record", "hello incomplete", "hello complete"], weight=3),
    ],
    "level_text": "bounded differential model checking: the repository's parseRawClientHello and the standard library's own clientHelloMsg.unmarshal + clientHelloInfo (the live crypto/tls of the Go that builds the repository, reached through an overlay shim, both executed from SSA) run on the same symbolic ClientHello; whenever crypto/tls accepts the hello, server name, ALPN list, supported versions, cipher suites, curves, point formats and signature schemes must be equal; the alpn sub-matcher must equal exact membership in the server's list; record type / incomplete-hello rules of MatchTLS.Match are asserted directly",
    "level_note": "hello = free fixed part (session id <= 1 byte, 1-2 cipher suites, 1 compression method, version fixed to 0x0303 except in the 'versions' variant) + extension block that is a free byte string of <= 10 (quick) / 12 (thorough) bytes, optionally preceded by one concrete extension (session_ticket with a non-empty ticket, ec_point_formats, renegotiation_info, SCT); real ClientHellos (200-1800 bytes, key shares, many extensions) are far outside this bound",
    "assumptions": ["crypto/tls reached through an add-only overlay shim (VerifUnmarshalClientHello) in the standard library's package directory; nothing on disk is modified"],
    "outside": ["extension blocks longer than the bound, more than ~2 extensions", "placeholders l4.tls.server_name / l4.tls.version (set from the same parsed values)", "sni matcher (caddytls.MatchServerName, Caddy code)"],
    "bounds": {"quick": "extension block <= 10 bytes free, or one concrete extension + <= 7-8 free bytes", "thorough": "<= 12 free bytes / concrete + 10"},
}

CHECKS["C16"] = {
    "harnesses": [H("c16.VH_socks5", {"L": 17 if i == 2 else 16, "ROUNDS": 1, "CFG": i}, {"L": 17, "ROUNDS": (1 if i in (2, 3, 6) else 2), "CFG": i}, variant=f"cfg{i}", weight=3,
                    covers=(["refused", "outbound action attempted"] if i not in (4, 5) else ["refused"]) + (["authenticated"] if i in (2, 3, 6) else []))
                  for i in range(9)] + [
        H("c16.VH_socks5_pair", {"L": 12, "ROUNDS": 1, "PAIR": i}, {"L": 13, "ROUNDS": 2, "PAIR": i}, variant=f"pair{i}", weight=3,
          covers=["second handler provisioned", "refused", "outbound action attempted"]) for i in range(4)] + [
        H("c16.VH_socks5_pair", {"L": 16, "ROUNDS": 1, "PAIR": i}, {"L": 17, "ROUNDS": 1, "PAIR": i}, variant=f"pair{i}", weight=3,
          covers=["second handler provisioned", "refused", "outbound action attempted", "authenticated"]) for i in (4, 5)],
    "level_text": "bounded model checking of the real Socks5Handler.Provision + Handle with the go-socks5 library's ServeConn, method negotiation, user/password authentication, request parsing and rule check executed from SSA over an arbitrary client byte stream; the three outbound actions (and the resolver) are intercepted; asserted: an outbound action is started only for an enabled command and, when credentials are configured, only if the user/password bytes on the wire equal a configured pair (re-parsed independently per RFC 1928/1929)",
    "level_note": "nine configurations (default commands; CONNECT only; BIND with one user; ASSOCIATE+BIND with two users incl. an empty password; a credential map holding only an empty user name; user names given as placeholders that resolve to nothing, alone and beside a real account; BIND only; ASSOCIATE only) and six pairs of handler instances provisioned one after the other (the first one is then served; for two pairs that differ only in a password - a reload that rotates it - the second one); client stream <= 16 (quick) / 17 (thorough) bytes delivered in 1-2 reads - enough for greeting, a 1-2 byte user and password and an IPv4 or short FQDN request; the native twin observes the outbound attempt through the reply code",
    "assumptions": ["handleConnect / handleBind / handleAssociate and DNSResolver.Resolve of go-socks5 are intercepted sinks", "zap/log are no-op stubs"],
    "outside": ["streams longer than the bound (long user names, IPv6 requests in the quick tier)", "placeholders that resolve to non-empty values", "what the outbound actions do once started"],
    "bounds": {"quick": "stream <= 16 bytes, one read", "thorough": "stream <= 17 bytes, two reads (one read for the three configurations with real accounts; pairs: 13 bytes, rotation pairs 17 / one read)"},
}

CHECKS["C17"] = {
    "harnesses": [H("c17.VH_throttle", {"CFG": i, "READS": 2, "CONNS": 2, "SIZES": 3, "L": 320}, {"CFG": i, "READS": 2, "CONNS": 2, "SIZES": 6, "L": 400}, variant=f"cfg{i}", weight=3,
                    covers=["throttled", "bytes read"], validate=False, native_replay=False, env_only=True) for i in range(4)] + [
        H("c17.VH_cancel", {}, {}, covers=["cancelled during the latency", "cancelled afterwards"], validate=False, native_replay=False, env_only=True)],
    "level_text": "bounded model checking of the real throttle Handler.Provision/Handle and throttledConn.Read on the virtual clock against an integer token-bucket contract for x/time/rate.Limiter (NewLimiter, Burst, WaitN): per connection and summed over two connections of one handler, bytes read by any read instant <= burst + rate x elapsed; the first client read is not before the configured latency; WaitN is never asked for more than the burst; every read continues the client's stream (stream symbolic, segmentation symbolic)",
    "level_note": "relative to the token-bucket contract - x/time/rate's own float64 arithmetic is not encoded (floats are concrete-only in the engine); four concrete rate/burst/latency configurations; reader buffer sizes from {1,32,64,100,101,300}; 2-3 reads per connection, two connections one after the other; context cancellation during the latency wait is not modelled; no native replay (limiter replaced, virtual clock)",
    "assumptions": ["rate.Limiter = integer token bucket: WaitN(n) fails if n > burst, otherwise returns at the earliest instant n tokens are available and removes them; tokens accrue at rate/s up to burst"],
    "outside": ["x/time/rate implementation", "rates/bursts outside the four configurations", "concurrent (interleaved) connections", "context cancellation"],
    "bounds": {"quick": "4 configurations x 3 buffer sizes ^ 2 reads x 2 connections, stream <= 320", "thorough": "6 buffer sizes, stream <= 400"},
}

_envonly = dict(validate=False, native_replay=False, env_only=True)
CHECKS["C11"] = {
    "harnesses": [
        H("c11.VH_maxconn", {}, {}, covers=["probed while proxying"], **_envonly),
        H("c11.VH_limits", {}, {}, covers=["limits provisioned"], **_envonly),
        H("c11.VH_active", {}, {}, covers=["checked"], **_envonly),
        H("c11.VH_failwindow", {}, {}, covers=["queried", "out of rotation"], **_envonly),
        H("c11.VH_retry", {}, {}, covers=["gave up", "connected after retries"], **_envonly),
        H("c11.VH_retry_multi", {}, {}, covers=["proxied after abandoned attempts", "attempts were abandoned"], **_envonly),
    ],
    "level_text": "bounded model checking of the real proxy Handler.Handle / dialPeers / countFailure / tryAgain / doActiveHealthCheck in the engine's goroutine mode on the virtual clock, net.Dial being an environment stub with scripted outcomes: max_connections (a probe selection made while the first connection is being proxied must be refused, and the count returns to zero), active checks (peer down iff it refuses), passive failure window (out of rotation exactly while failures of the last fail_duration >= max_fails, for 1-3 failures at instants from a grid, count never negative and back to zero), retries (every try_interval, not after try_duration, last dial error returned, one attempt with try_duration 0)",
    "level_note": "one upstream with one peer; failure instants and query instants from a 3-7-11-second grid around fail_duration = 10 s; try_duration in {0, 1 s, 2.5 s}, try_interval 500 ms; cooperative goroutine schedule (goroutines ready to run do so before virtual time passes); not natively replayable (dial stub, virtual clock): counterexamples are reported from the solver alone",
    "assumptions": ["net.Dial / net.DialTimeout = scripted outcomes", "virtual clock; cooperative scheduling, no pre-emption"],
    "outside": ["several upstreams failing independently", "pre-emptive interleavings", "real sockets"],
    "bounds": {"quick": "as described", "thorough": "same"},
}
CHECKS["C03"] = {
    "harnesses": [
        H("c11.VH_relay", {"PEERS": 1, "BL": 3, "DL": 3, "UPL": 3, "EOFDATA": 1}, {"PEERS": 1, "BL": 4, "DL": 4, "UPL": 4, "EOFDATA": 1}, variant="one-peer", covers=["relayed"], weight=2, **_envonly),
        H("c11.VH_relay", {"PEERS": 2, "BL": 2, "DL": 2, "UPL": 2}, {"PEERS": 2, "BL": 3, "DL": 3, "UPL": 3}, variant="two-peers", covers=["relayed"], weight=5, **_envonly),
        H("c11.VH_retry_multi", {}, {}, covers=["proxied after abandoned attempts", "attempts were abandoned"], **_envonly),
        H("c11.VH_relay_wrapped", {"params": {"DL": 2, "UPL": 2}}, {"params": {"DL": 3, "UPL": 3}}, covers=["relayed behind a wrapping handler"], weight=1, **_envonly),
        # the relay starts where matching left the connection: freeze/unfreeze restore the read position from any state
        H("c01.VH_match_step", {}, {}, covers=["matcher read bytes"]),
    ],
    "level_text": "bounded model checking (reduced claim) of the real Handler.Handle tail and Handler.proxy with io.Copy / io.TeeReader executed from SSA in the engine's goroutine mode: prefetched-but-unread bytes plus the client's stream reach every peer exactly once and in order, upstream bytes reach the client in order, CloseWrite reaches each upstream only after the last client byte and the client only after every upstream finished, proxy returns (no deadlock), every upstream connection is closed",
    "level_note": "payloads of a few bytes in 1-3 chunks per direction, 1-2 peers, client and upstreams half-close after their last byte; cooperative schedule only (no pre-emption inside io.Copy), no abrupt closes, no MiB payloads, no kernel buffering; scripted conns stand for TCP/Unix/TLS half-close behaviour; not natively replayable",
    "assumptions": ["net.Dial = scripted upstream connections implementing CloseWrite", "cooperative scheduling"],
    "outside": ["large payloads and write timings", "abrupt close orders", "real transports"],
    "bounds": {"quick": "<= 3 bytes per source, 1 or 2 peers", "thorough": "<= 4 bytes"},
}
CHECKS["C12"] = {
    "harnesses": [
        H("c01.VH_pp_placeholders", {"READS": 1}, {"READS": 2}, covers=["placeholders read after the header", "recorder ran"]),
        H("c01.VH_pp_allow", {"OFFSET0": 1, "READS": 1, "ROUNDS": 2}, {"OFFSET0": 1, "READS": 2, "ROUNDS": 2}, covers=["allowed peer", "peer outside the allow list", "recorder ran"], weight=4),
        H("c01.VH_step_proxyproto", {"params": {"READS": 1, "OFFSET0": 1, "MAXB": 5000, "MAXD": 1000, "ROUNDS": 2}, "timeout_ms": 60000},
          {"params": {"READS": 2, "OFFSET0": 0, "MAXB": 9000, "MAXD": 1000, "ROUNDS": 2}, "timeout_ms": 120000}, covers=["recorder ran", "more than 4096 bytes buffered"], weight=5),
        H("c11.VH_ppsend", {"PEERS": 2}, {"PEERS": 2}, covers=["header sent"], **_envonly),
        H("c11.VH_ppsend_fail", {}, {}, covers=["header write failed"], **_envonly),
    ],
    "level_text": "bounded model checking (reduced claim): receiver - the real proxy_protocol Handler with its allow list (symbolic IPv4 peer, three CIDRs incl. an overlapping /32) accepts a header only from allowed peers, later handlers see the declared source address and GetConn returns the PROXY connection, other peers are passed through on the same connection with the stream intact; exactly the header bytes are stripped (three concrete valid headers, up to 9000 prefetched bytes); sender - dialPeers writes exactly one header per peer before any payload: v2 bytes compared field by field for a symbolic client address/port, v1 compared with the exact text line for a concrete address",
    "level_note": "the library's header parser is replaced under the engine by 'consume the (concrete, valid) header' while the native twin runs the real parser on the same bytes; TLVs, v2 LOCAL semantics beyond stripping, UNKNOWN/TCP6 families on the sender side and the library parser's behaviour on malformed headers are outside; the v1 text is produced by library code (fmt, net.IP.String) and is only checked for one concrete address",
    "assumptions": ["proxyprotocol.Parse replaced by: discard the concrete header", "net.Dial = scripted upstream"],
    "outside": ["TLVs, TCP6/UNKNOWN headers on the sender side", "malformed headers", "header split across reads in the library parser"],
    "bounds": {"quick": "as described", "thorough": "larger buffers, two peers"},
}

CHECKS["C13"] = {
    "harnesses": [
        H("c13.VH_listener", {"CONNS": 2, "L": 3}, {"CONNS": 3, "L": 3}, covers=["delivered and read", "consumed or rejected", "closed"], weight=3, **_envonly),
        H("c13.VH_listener", {"params": {"CONNS": 2, "L": 2}, "preempt": 1}, {"params": {"CONNS": 2, "L": 3}, "preempt": 1}, variant="preempt", covers=["delivered and read", "closed"], weight=5, **_envonly),
        H("c13.VH_listener_wrap", {"CONNS": 2, "L": 3}, {"CONNS": 2, "L": 4}, covers=["handler consumed the buffered bytes and wrapped", "delivered and read", "delivered after a handler consumed bytes"], weight=4, **_envonly),
        H("c13.VH_listener_wrap", {"CONNS": 2, "L": 3, "TLS": 1}, {"CONNS": 2, "L": 4, "TLS": 1}, variant="tls-state", covers=["TLS state exposed", "delivered and read"], weight=4, **_envonly),
        H("c13.VH_listener", {"CONNS": 2, "L": 2, "NOREAD": 1}, {"CONNS": 3, "L": 3, "NOREAD": 1}, variant="noread", covers=["delivered and read", "closed"], weight=1, **_envonly),
        # a handler that wraps the connection before reading (tee, metering wrappers): the stream continues once, in order
        H("c01.VH_wrap_step", {}, {}, covers=["unread bytes at Wrap time", "read past the bytes buffered at Wrap time"]),
        H("c13.VH_close_pending", {"CONNS": 2}, {"CONNS": 3}, covers=["closed with pending connections"], **_envonly),
        H("c13.VH_close_pending", {"CONNS": 3, "GOMAXPROCS": 1}, {"CONNS": 3, "GOMAXPROCS": 2}, variant="small-queue", covers=["closed with pending connections"], **_envonly),
        H("c13.VH_close_pending", {"params": {"CONNS": 2}, "preempt": 1}, {"params": {"CONNS": 3}, "preempt": 2}, variant="preempt", covers=["closed with pending connections"], weight=2, **_envonly),
    ],
    "level_text": "bounded model checking of the real WrapListener / listener.loop / handle / Accept / Close / pipeConnection / listenerHandler in the engine's goroutine mode (cooperative schedules exhaustively, plus 1-2 pre-emptions at channel/sync operations): 2-3 connections with symbolic streams and segmentation, one content-dependent terminal route; every connection that falls through is delivered by Accept exactly once and reads its own client's stream from the first byte although matching buffers are pooled, connections consumed or rejected by layer4 are never delivered and are closed, after Close Accept reports closure and every pending connection is either delivered or closed, and nothing stays blocked (deadlock = violation)",
    "level_note": "scripted base listener (yields the connections, then blocks until closed); the consumer accepts after the handlers ran (slow consumer) or, with pre-emption, in between; the TLS connection state hand-over (tlsConnection) is exercised with a handler that records connection states the way the tls handler does - no TLS handshake is executed; sync.Pool returns the most recently pooled buffer (LIFO) - the adversarial 'any pooled buffer' mode is used in the thorough tier; not natively replayable",
    "assumptions": ["scripted base listener and client connections", "sync.Pool model: Get returns the last Put object, or New()"],
    "outside": ["more than 3 connections", "a real TLS handshake/decryption before hand-over (crypto/tls is not encoded)", "more than 2 pre-emptions"],
    "bounds": {"quick": "2 connections, streams <= 3 bytes, <= 1 pre-emption", "thorough": "3 connections, <= 1 pre-emption (2 for the close-pending harness)"},
}
CHECKS["C08"] = {
    "harnesses": [
        H("c13.VH_listener", {"CONNS": 2, "L": 3}, {"params": {"CONNS": 3, "L": 2}, "pool_adversarial": True}, variant="pool", covers=["delivered and read"], weight=3, **_envonly),
        H("c01.VH_step_tee", {"MAXB": 3000}, {"MAXB": 5000}, covers=["recorder ran", "bytes buffered at handler time"], weight=8, validate=False),
        H("c01.VH_prefetch_step", {}, {}, covers=["read through a pooled chunk"]),
        H("c13.VH_listener_wrap", {"CONNS": 2, "L": 3}, {"CONNS": 2, "L": 4}, covers=["handler consumed the buffered bytes and wrapped", "delivered and read", "delivered after a handler consumed bytes"], weight=4, **_envonly),
        # UDP: a half-read datagram's pooled buffer is not reused for the next datagram
        H("c09.VH_partial", {}, {}, covers=["datagram read in pieces", "next datagram read"], **_envonly),
    ] + [
        # race mode: two goroutines through one provisioned matcher instance, same symbolic stream
        H("c08.VH_" + m, {"params": {"SAME": 1}, "race": True}, {"params": {"SAME": 1, "L": lt}, "race": True, "preempt": (1 if w == 1 else 0)}, variant="race",
          covers=["matched concurrently"] + ([] if m in ("http",) else ["a stream matches"]), weight=w, **_envonly)
        for m, lt, w in [("ssh", 8, 1), ("xmpp", 54, 2), ("postgres", 14, 1), ("socks4", 10, 1), ("socks5", 8, 1), ("proxyproto", 14, 1), ("regexp", 7, 1),
                         ("wireguard", 148, 1), ("tls", 57, 4), ("rdp", 16, 2), ("winbox", 40, 2), ("openvpn", 58, 3), ("http", 16, 1)]
    ] + [
        # independent streams and one pre-emption: verdicts equal the matcher's verdict on each stream alone
        H("c08.VH_" + m, {"params": {"SAME": 0, "L": lq}, "race": True, "preempt": 1}, {"params": {"SAME": 0, "L": lt}, "race": True, "preempt": 1}, variant="indep",
          covers=["matched concurrently"], weight=3, **_envonly)
        for m, lq, lt in [("regexp", 6, 7), ("socks5", 4, 6), ("ssh", 4, 6)]
    ] + [
        # the concurrency harnesses of other properties, in race mode
        H("c13.VH_listener", {"params": {"CONNS": 2, "L": 2}, "race": True}, {"params": {"CONNS": 3, "L": 2}, "race": True}, variant="race", covers=["delivered and read"], weight=3, **_envonly),
        H("c13.VH_close_pending", {"params": {"CONNS": 2}, "race": True}, {"params": {"CONNS": 3}, "race": True, "preempt": 1}, variant="race", covers=["closed with pending connections"], weight=2, **_envonly),
        H("c09.VH_udp", {"params": {"KIND": 2, "DGRAMS": 2, "CLIENTS": 2}, "race": True}, {"params": {"KIND": 2, "DGRAMS": 3, "CLIENTS": 2}, "race": True, "preempt": 1}, variant="race", covers=["served"], weight=3, **_envonly),
        H("c11.VH_relay", {"params": {"PEERS": 2, "BL": 2, "DL": 2, "UPL": 2}, "race": True}, {"params": {"PEERS": 2, "BL": 2, "DL": 3, "UPL": 2}, "race": True}, variant="race", covers=["relayed"], weight=4, **_envonly),
        H("c11.VH_failwindow", {"params": {}, "race": True}, {"params": {}, "race": True, "preempt": 1}, variant="race", covers=["queried"], weight=1, **_envonly),
        H("c01.VH_step_tee", {"params": {"MAXB": 600}, "race": True}, {"params": {"MAXB": 3000}, "race": True}, variant="race", covers=["recorder ran"], weight=3, **_envonly),
        H("c01.VH_tee_vars", {"params": {"OFFSET0": 1, "READS": 1, "ROUNDS": 2}, "race": True}, {"params": {"OFFSET0": 1, "READS": 2, "ROUNDS": 2}, "race": True}, covers=["tee with handlers that set connection variables"], weight=2, **_envonly),
        H("c11.VH_retry", {"params": {}, "race": True}, {"params": {}, "race": True, "preempt": 1}, variant="race", covers=["gave up"], weight=1, **_envonly),
        H("c11.VH_maxconn", {"params": {}, "race": True}, {"params": {}, "race": True, "preempt": 1}, variant="race", covers=["probed while proxying"], weight=1, **_envonly),
        H("c17.VH_throttle", {"params": {"CFG": 3, "READS": 2, "CONNS": 2, "SIZES": 2, "L": 200}, "race": True}, {"params": {"CFG": 3, "READS": 2, "CONNS": 2, "SIZES": 3, "L": 320}, "race": True}, variant="race", covers=["throttled"], weight=2, validate=False, native_replay=False, env_only=True),
        H("c08.VH_select", {"params": {}, "race": True}, {"params": {}, "race": True, "preempt": 1}, covers=["selected concurrently"], weight=2, **_envonly),
        H("c08.VH_router", {"params": {"L": 3}, "race": True}, {"params": {"L": 3}, "race": True, "preempt": 1}, covers=["routed concurrently"], weight=3, **_envonly),
    ],
    "level_text": "bounded model checking in the engine's goroutine mode. (a) Cross-talk: pooled matching-buffer lifetime - two or three connections go through the listener wrapper, one is handed over (its prefetched bytes still unread, or after a consuming handler wrapped it) before the next one takes a buffer from the pool; every delivered connection must read exactly its own client's bytes; one prefetch step from any state must not leave the connection's buffer aliasing a chunk that is back in the pool; the tee branch/main chain each read the whole stream once; two connections evaluated at the same time by ONE provisioned matcher / compiled route list get the verdicts a private instance gives each stream alone. (b) Data races: happens-before race detection over the interpreted program (engine/race.go: vector clocks; edges from go, channel send/receive/close, Mutex/RWMutex, WaitGroup, Once, sync.Pool, every sync/atomic operation, timers; plain loads/stores, map operations and copy/append byte ranges checked against the last conflicting accesses; symbolic byte ranges compared by the solver) on symbolic inputs: two goroutines through every matcher (13), the compiled router, every selection policy with a third goroutine updating peer counters, the listener wrapper, the UDP server, the proxy relay with two peers, retries, max_connections, passive failure window, tee and throttle. A reported race is replayed under `go test -race` and must be reported by the Go race detector at the same source lines",
    "level_note": "race detection is schedule-insensitive for the accesses a path performs (two unordered conflicting accesses are reported whatever order the engine ran them in), but it only sees the accesses of the explored paths: streams within the per-matcher bounds, two connections, the configurations listed; happens-before is over-approximated where the model is simplified (release joins, all earlier receives order a later send), so races may be missed but a reported one is a race under the Go memory model; only accesses attributed to repository code are reported (third-party libraries' internals - x/time/rate, go-socks5, zap - are not judged); three races were found this way and repaired (round_robin counter - first found by reading, openvpn lastDigest, Connection byte counters)",
    "assumptions": ["sync.Pool: Get returns the last Put object (quick) / any pooled object or a fresh one (thorough)", "sync/atomic operations are sequentially consistent and synchronise (Go memory model)", "the harness's own bookkeeping is excluded from race reports"],
    "outside": ["more than 2-3 simultaneous connections", "races inside third-party libraries and net/http", "accesses on paths outside the bounds (long streams, configurations not listed)", "Server.handle (non-listener) with a tee branch outliving the handler", "processor counts (the happens-before relation does not depend on them)"],
    "bounds": {"quick": "2 goroutines per harness (3 for selection policies), streams within the C06 per-matcher bounds, cooperative schedules (+1 pre-emption for the independent-stream variants)", "thorough": "3 connections for the listener, adversarial pool, one pre-emption for the small harnesses (none for tls, relay, winbox, openvpn, rdp, xmpp)"},
}
CHECKS["C09"] = {
    "harnesses": [
        H("c09.VH_udp", {"params": {"KIND": k, "DGRAMS": 2, "CLIENTS": 2}, "preempt": (1 if k == 0 else 0)}, {"params": {"KIND": k, "DGRAMS": 2, "CLIENTS": 2}, "preempt": 1}, variant=f"kind{k}",
          covers=["served"] + (["datagram read"] if k else []), weight=4, **_envonly) for k in range(3)
    ] + [H("c09.VH_partial", {}, {}, covers=["datagram read in pieces", "next datagram read"], **_envonly),
         H("c09.VH_udp_burst", {"params": {"DGRAMS": 8}}, {"params": {"DGRAMS": 9}, "preempt": 1}, covers=["served", "more than the queue capacity delivered"], **_envonly),
         H("c09.VH_udp_idle", {"params": {}}, {"params": {}, "preempt": 1}, covers=["served", "resumed on a fresh connection", "all three datagrams read"], **_envonly)] + [H("c09.VH_udp", {"params": {"KIND": 0, "DGRAMS": 3, "CLIENTS": 1}, "preempt": 1}, {"params": {"KIND": 0, "DGRAMS": 4, "CLIENTS": 1}, "preempt": 2}, variant="burst",
           covers=["served", "several virtual connections"], weight=4, **_envonly)],
    "level_text": "bounded model checking of the real Server.servePacket (reader goroutine, select loop, per-client packetConn, closure notifications), packetConn.Read/Write/Close and Server.handle in the engine's goroutine mode on the virtual clock: a burst of 2-4 datagrams from one or two clients against handlers that return at once, read once, or echo; all cooperative schedules plus one pre-emption at a channel/go/sync operation and every choice of ready select case; asserted: no panic in any goroutine (send on closed channel, double close), no deadlock, the loop returns when the socket fails, every read of a virtual connection is the next datagram of its own client (in-order subsequence), replies go to the client whose datagram they answer",
    "level_note": "scripted net.PacketConn; datagrams <= 4 bytes with symbolic content; idle expiry exercised by advancing the virtual clock by 31 s; not natively replayable (schedules)",
    "assumptions": ["scripted UDP socket", "goroutine schedules: cooperative + <= 1-2 pre-emptions at visible operations; plain memory accesses are not pre-emption points"],
    "outside": ["more than 4 datagrams / 2 clients", "datagrams larger than the reader's buffer (partial reads)", "real sockets"],
    "bounds": {"quick": "2-3 datagrams, 1 pre-emption", "thorough": "3-4 datagrams, 1-2 pre-emptions"},
}

NOT_APPLICABLE = {
    "C15": "Caddyfile->JSON adaptation and JSON round-trip run through the Caddyfile lexer, encoding/json reflection and Caddy's module loader over an unbounded configuration grammar; this cannot be encoded by a hand-written go/ssa symbolic executor (reflection refused, inputs are programs of a grammar, not bounded bytes/integers)",
}
