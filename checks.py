"""Check registry: which harnesses decide which property, with their bounds per tier."""

ALLOC = 128 * 1024  # 16 x MaxMatchingBytes (DESIGN section 5, C04)

CHECKS = {
    "C04": {
        "harnesses": [
            {"name": "c04.VH_postgres", "opts": {"alloc_limit": ALLOC}, "quick": {"params": {"L": 16}}, "thorough": {"params": {"L": 20}}},
        ],
        "assumptions": [],
        "outside": [],
        "bounds": {"quick": "", "thorough": ""},
    },
}

NOT_APPLICABLE = {
    "C15": "Caddyfile->JSON adaptation and JSON round-trip run through the Caddyfile lexer, encoding/json reflection and Caddy's module loader over an unbounded configuration grammar; this cannot be encoded by a hand-written go/ssa symbolic executor (reflection refused, inputs are programs of a grammar, not bounded bytes/integers)",
}
