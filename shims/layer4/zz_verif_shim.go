package layer4

// Verification shim (injected by overlay; never committed to the repository).

func VerifFreeze(cx *Connection)   { cx.freeze() }
func VerifUnfreeze(cx *Connection) { cx.unfreeze() }
