package layer4

// Verification shim (injected by overlay; never committed to the repository).
// Add-only exported accessors; nothing is rewritten.

import (
	"net"
	"time"

	"go.uber.org/zap"
)

func VerifFreeze(cx *Connection)   { cx.freeze() }
func VerifUnfreeze(cx *Connection) { cx.unfreeze() }
func VerifPrefetch(cx *Connection) error { return cx.prefetch() }

// VerifNewRoute builds a provisioned route without Caddy's module loader.
func VerifNewRoute(sets []MatcherSet, handlers []NextHandler) *Route {
	r := &Route{matcherSets: MatcherSets(sets)}
	for _, h := range handlers {
		r.middleware = append(r.middleware, wrapHandler(h))
	}
	return r
}

// VerifBuffered is the number of prefetched bytes not yet consumed.
func VerifBuffered(cx *Connection) int { return len(cx.buf) - cx.offset }
func VerifBufLen(cx *Connection) int   { return len(cx.buf) }
func VerifBufCap(cx *Connection) int   { return cap(cx.buf) }
func VerifOffset(cx *Connection) int   { return cx.offset }
func VerifMatching(cx *Connection) bool { return cx.matching }
func VerifBuf(cx *Connection) []byte   { return cx.buf }

// VerifSetState puts a Connection into an arbitrary representation state.
func VerifSetState(cx *Connection, buf []byte, offset, frozenOffset int, matching bool) {
	cx.buf, cx.offset, cx.frozenOffset, cx.matching = buf, offset, frozenOffset, matching
}

const VerifPrefetchChunkSize = prefetchChunkSize

func VerifNopHandler() Handler      { return nopHandler{} }
func VerifListenerHandler() Handler { return listenerHandler{} }

// VerifNewServer builds a provisioned server around a compiled route.
func VerifNewServer(routes RouteList, timeout time.Duration) *Server {
	s := &Server{Routes: routes, logger: zap.NewNop()}
	s.compiledRoute = routes.Compile(s.logger, timeout, nopHandler{})
	return s
}
func VerifServerHandle(s *Server, c net.Conn)         { s.handle(c) }
func VerifServePacket(s *Server, pc net.PacketConn) error { return s.servePacket(pc) }
func VerifBufPoolPut(b []byte)                          { bufPool.Put(b) }
func VerifBufPoolGet() []byte                           { return bufPool.Get().([]byte) }

// VerifNewListenerWrapper builds a provisioned listener wrapper.
func VerifNewListenerWrapper(routes RouteList, timeout time.Duration) *ListenerWrapper {
	lw := &ListenerWrapper{Routes: routes, logger: zap.NewNop()}
	lw.compiledRoute = routes.Compile(lw.logger, timeout, listenerHandler{})
	return lw
}

// VerifNewPacketConn builds a virtual UDP connection as servePacket does.
func VerifNewPacketConn(pc net.PacketConn, addr net.Addr) net.Conn {
	return &packetConn{PacketConn: pc, readCh: make(chan *packet, 5), done: make(chan struct{}), addr: addr, closeCh: make(chan *packetConn, 10)}
}

// VerifPacketConnFeed delivers one datagram to a virtual UDP connection.
func VerifPacketConnFeed(c net.Conn, b []byte) {
	buf := udpBufPool.Get().([]byte)
	n := copy(buf, b)
	c.(*packetConn).readCh <- &packet{pooledBuf: buf, n: n, addr: c.(*packetConn).addr}
}

// VerifQueueCap reports the capacity of the per-client datagram queue of a virtual UDP connection.
func VerifQueueCap(cx *Connection) int {
	if pc, ok := cx.Conn.(*packetConn); ok {
		return cap(pc.readCh)
	}
	return -1
}
