package l4tee

// Verification shim (injected by overlay; never committed to the repository).

import (
	"github.com/mholt/caddy-l4/layer4"
	"go.uber.org/zap"
)

// VerifNew builds a provisioned tee handler whose branch is the given chain.
func VerifNew(branch layer4.Handler) *Handler {
	return &Handler{compiledChain: branch, logger: zap.NewNop()}
}
