package l4subroute

// Verification shim (injected by overlay; never committed to the repository).

import (
	"github.com/caddyserver/caddy/v2"
	"github.com/mholt/caddy-l4/layer4"
	"go.uber.org/zap"
)

// VerifNew builds a provisioned subroute handler without Caddy's module loader.
func VerifNew(routes layer4.RouteList) *Handler {
	return &Handler{Routes: routes, MatchingTimeout: caddy.Duration(layer4.MatchingTimeoutDefault), logger: zap.NewNop()}
}
