package l4tls

// Verification shim (injected by overlay; never committed to the repository).

import (
	"github.com/caddyserver/caddy/v2/modules/caddytls"
	"go.uber.org/zap"
)

// VerifNewMatchTLS builds a provisioned MatchTLS without Caddy's module loader.
func VerifNewMatchTLS(matchers ...caddytls.ConnectionMatcher) *MatchTLS {
	return &MatchTLS{matchers: matchers, logger: zap.NewNop()}
}

// VerifParseRawClientHello exposes the ClientHello parser.
func VerifParseRawClientHello(data []byte) ClientHelloInfo { return parseRawClientHello(data) }
