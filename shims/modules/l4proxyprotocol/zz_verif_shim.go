package l4proxyprotocol

// Verification shim (injected by overlay; never committed to the repository).

import "go.uber.org/zap"

// VerifQuiet replaces the development logger a zero caddy.Context hands out.
func VerifQuiet(h *Handler) { h.logger = zap.NewNop() }
func VerifRuleCount(h *Handler) int { return len(h.rules) }
