package l4http

// Verification shim (injected by overlay; never committed to the repository).

func VerifIsHttp(data []byte) (bool, bool) { return MatchHTTP{}.isHttp(data) }
