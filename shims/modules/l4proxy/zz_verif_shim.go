package l4proxy

// Verification shim (injected by overlay; never committed to the repository).

import "sync/atomic"

// VerifPeerState is the externally visible state of one peer.
type VerifPeerState struct {
	NumConns  int32
	Unhealthy int32
	Fails     int32
}

// VerifUpstream builds a provisioned upstream from peer states without Caddy's loader.
func VerifUpstream(dial []string, maxConns int, maxFails int, ps []VerifPeerState) *Upstream {
	u := &Upstream{Dial: dial, MaxConnections: maxConns}
	for _, s := range ps {
		u.peers = append(u.peers, &peer{numConns: s.NumConns, unhealthy: s.Unhealthy, fails: s.Fails})
	}
	if maxFails >= 0 {
		u.healthCheckPolicy = &PassiveHealthChecks{MaxFails: maxFails}
	}
	return u
}

func VerifAvailable(u *Upstream) bool { return u.available() }
func VerifTotalConns(u *Upstream) int { return u.totalConns() }
func VerifLeastConns(us []*Upstream) *Upstream { return leastConns(us) }
func VerifHostByHashing(pool []*Upstream, s string) *Upstream { return hostByHashing(pool, s) }
func VerifSetRobin(r *RoundRobinSelection, v uint32) { atomic.StoreUint32(&r.robin, v) }
func VerifSetPeer(u *Upstream, i int, s VerifPeerState) {
	atomic.StoreInt32(&u.peers[i].numConns, s.NumConns)
	atomic.StoreInt32(&u.peers[i].unhealthy, s.Unhealthy)
	atomic.StoreInt32(&u.peers[i].fails, s.Fails)
}
func VerifPeerState_(u *Upstream, i int) VerifPeerState {
	p := u.peers[i]
	return VerifPeerState{NumConns: atomic.LoadInt32(&p.numConns), Unhealthy: atomic.LoadInt32(&p.unhealthy), Fails: atomic.LoadInt32(&p.fails)}
}
func VerifHash(s string) uint32 { return hash(s) }
