package l4proxy

// Verification shim (injected by overlay; never committed to the repository).

import (
	"context"
	"sync/atomic"
	"time"

	"github.com/caddyserver/caddy/v2"
	"go.uber.org/zap"
)

// VerifPeerState is the externally visible state of one peer.
type VerifPeerState struct {
	NumConns  int32
	Unhealthy int32
	Fails     int32
}

// VerifUpstream builds a provisioned upstream from peer states without Caddy's loader.
func VerifUpstream(dial []string, maxConns int, maxFails int, ps []VerifPeerState) *Upstream {
	u := &Upstream{Dial: dial, MaxConnections: maxConns}
	for _, s := range ps {
		u.peers = append(u.peers, &peer{numConns: s.NumConns, unhealthy: s.Unhealthy, fails: s.Fails})
	}
	if maxFails >= 0 {
		u.healthCheckPolicy = &PassiveHealthChecks{MaxFails: maxFails}
	}
	return u
}

func VerifAvailable(u *Upstream) bool { return u.available() }
func VerifTotalConns(u *Upstream) int { return u.totalConns() }
func VerifLeastConns(us []*Upstream) *Upstream { return leastConns(us) }
func VerifHostByHashing(pool []*Upstream, s string) *Upstream { return hostByHashing(pool, s) }
// VerifRobinPtr hands out the round-robin counter (set with vapi.SetU32, whatever its integer type).
func VerifRobinPtr(r *RoundRobinSelection) interface{} { return &r.robin }
func VerifSetPeer(u *Upstream, i int, s VerifPeerState) {
	atomic.StoreInt32(&u.peers[i].numConns, s.NumConns)
	atomic.StoreInt32(&u.peers[i].unhealthy, s.Unhealthy)
	atomic.StoreInt32(&u.peers[i].fails, s.Fails)
}
func VerifPeerState_(u *Upstream, i int) VerifPeerState {
	p := u.peers[i]
	return VerifPeerState{NumConns: atomic.LoadInt32(&p.numConns), Unhealthy: atomic.LoadInt32(&p.unhealthy), Fails: atomic.LoadInt32(&p.fails)}
}
func VerifHash(s string) uint32 { return hash(s) }

// VerifNewHandler builds a provisioned proxy handler without Caddy's module loader.
func VerifNewHandler(ups UpstreamPool, sel Selector, tryDuration, tryInterval time.Duration, passive *PassiveHealthChecks, ppVersion uint8) *Handler {
	h := &Handler{Upstreams: ups, proxyProtocolVersion: ppVersion, logger: zap.NewNop(), ctx: caddy.Context{Context: context.Background()},
		LoadBalancing: &LoadBalancing{SelectionPolicy: sel, TryDuration: caddy.Duration(tryDuration), TryInterval: caddy.Duration(tryInterval)}}
	if passive != nil {
		passive.logger = zap.NewNop()
		h.HealthChecks = &HealthChecks{Passive: passive}
		for _, u := range ups {
			u.healthCheckPolicy = passive
			if passive.UnhealthyConnectionCount > 0 && u.MaxConnections == 0 {
				u.MaxConnections = passive.UnhealthyConnectionCount
			}
		}
	}
	return h
}

// VerifSetAddr gives peer i of u a dial address.
func VerifSetAddr(u *Upstream, i int, network, host string, port uint) {
	u.peers[i].address = caddy.NetworkAddress{Network: network, Host: host, StartPort: port, EndPort: port}
}

// VerifActiveCheck runs one active health check of peer i of u.
func VerifActiveCheck(h *Handler, u *Upstream, i int, timeout time.Duration) error {
	if h.HealthChecks == nil {
		h.HealthChecks = &HealthChecks{}
	}
	h.HealthChecks.Active = &ActiveHealthChecks{Timeout: caddy.Duration(timeout), logger: zap.NewNop()}
	return h.doActiveHealthCheck(u.peers[i])
}

func VerifCountFailure(h *Handler, u *Upstream, i int) { h.countFailure(u.peers[i]) }
func VerifHealthy(u *Upstream) bool                   { return u.healthy() }

// VerifProvisionUpstream runs the real Upstream.provision for u inside a handler
// with the given passive health check settings.
func VerifProvisionUpstream(u *Upstream, passive *PassiveHealthChecks) (*Handler, error) {
	h := &Handler{Upstreams: UpstreamPool{u}, logger: zap.NewNop(), ctx: caddy.Context{Context: context.Background()}}
	if passive != nil {
		h.HealthChecks = &HealthChecks{Passive: passive}
	}
	err := u.provision(h.ctx, h)
	return h, err
}

// VerifFull reports u.full().
func VerifFull(u *Upstream) bool { return u.full() }

// VerifCountConn adjusts the connection count of peer i of u the way Handle does.
func VerifCountConn(u *Upstream, i int, delta int) { _ = u.peers[i].countConn(delta) }
