#!/usr/bin/env python3
import os, json
rep = {}
shims = "/verif/shims"
for d, _, files in os.walk(shims):
    for f in files:
        if f.endswith(".go"):
            rep[os.path.join("/repo", os.path.relpath(d, shims), f)] = os.path.join(d, f)
import subprocess
goroot = subprocess.run(["go", "env", "GOROOT"], capture_output=True, text=True).stdout.strip()
std = "/verif/shims_std"
for d, _, files in os.walk(std):
    for f in files:
        if f.endswith(".go"):
            rep[os.path.join(goroot, "src", os.path.relpath(d, std), f)] = os.path.join(d, f)
os.makedirs("/verif/.work", exist_ok=True)
json.dump({"Replace": rep}, open("/verif/.work/overlay.json", "w"))
print(len(rep), "shims")
