#!/usr/bin/env python3
import os, json
rep = {}
shims = "/verif/shims"
for d, _, files in os.walk(shims):
    for f in files:
        if f.endswith(".go"):
            rep[os.path.join("/repo", os.path.relpath(d, shims), f)] = os.path.join(d, f)
os.makedirs("/verif/.work", exist_ok=True)
json.dump({"Replace": rep}, open("/verif/.work/overlay.json", "w"))
print(len(rep), "shims")
