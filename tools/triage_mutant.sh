#!/bin/bash
# triage_mutant.sh <mutant dir> [property] [extra vcheck args]: runs the property's quick check against a scratch
# worktree of /repo with the mutant applied (VERIF_REPO), leaves /repo untouched.
M=$1
NAME=$(basename $M)
PID=${2:-$(python3 -c "import json;print(json.load(open('$M/meta.json'))['property'])")}
shift; shift
WT=/tmp/wtm-$NAME
git -C /repo worktree remove --force $WT >/dev/null 2>&1
git -C /repo worktree add -q --detach $WT HEAD || { echo "$NAME worktree-failed"; exit 1; }
git -C $WT apply $M/patch.diff || { echo "$NAME apply-failed"; git -C /repo worktree remove --force $WT; exit 1; }
cd /verif
t0=$(date +%s)
VERIF_REPO=$WT python3 vcheck.py $PID --tier quick "$@" > $M/triage-$PID.log 2>&1
rc=$?
t1=$(date +%s)
v=$(grep -c "^VIOLATION" $M/triage-$PID.log)
echo "$NAME property=$PID exit=$rc violations=$v secs=$((t1-t0)) $(grep -m1 'violation in\|INCONCLUSIVE' $M/triage-$PID.log | cut -c1-220)"
git -C /repo worktree remove --force $WT
rm -rf /verif/.work/$PID-quick-wtm-$NAME
