#!/bin/bash
# confirm_mutant.sh <mutant dir> : verifies (in a scratch worktree) that the change
# builds, passes the existing suite, and that its demonstration fails with it and passes without it.
set -u
M=$1
NAME=$(basename $M)
WT=/tmp/wtc-$NAME
export GOFLAGS=-mod=mod GOPROXY=off GOSUMDB=off GOTOOLCHAIN=local
git -C /repo worktree remove --force $WT >/dev/null 2>&1
git -C /repo worktree add -q --detach $WT HEAD || { echo "$NAME worktree-failed"; exit 1; }
cd $WT
cp go.mod /tmp/demo.mod; cp go.sum /tmp/demo.sum
DEMO_DIR=$(python3 -c "import json;print(json.load(open('$M/meta.json'))['demo_dir'])")
DEMO_RUN=$(python3 -c "import json;print(json.load(open('$M/meta.json'))['demo_run'])")
res="$NAME"
if ! git apply $M/patch.diff 2>/dev/null; then res="$res apply=FAIL"; echo "$res"; cd /; git -C /repo worktree remove --force $WT; exit 0; fi
if go build ./... >/dev/null 2>&1; then res="$res build=ok"; else res="$res build=FAIL"; fi
if go test -vet=off -count=1 ./... >$M/suite.log 2>&1; then res="$res suite=pass"; else res="$res suite=FAIL($(grep -c '^--- FAIL' $M/suite.log))"; fi
cp $M/demo_test.go $DEMO_DIR/zz_demo_test.go
if (eval "$DEMO_RUN -count=1") >$M/demo_with.log 2>&1; then res="$res demo_with=PASS(!)"; else res="$res demo_with=fail"; fi
git apply -R $M/patch.diff
if (eval "$DEMO_RUN -count=1") >$M/demo_without.log 2>&1; then res="$res demo_without=pass"; else res="$res demo_without=FAIL(!)"; fi
echo "$res"
cd /
git -C /repo worktree remove --force $WT
