#!/bin/sh
# Runs the repository's own test suite without letting `go` rewrite /repo/go.mod
# (under -mod=mod any go command whose main module is /repo reorders its requires).
set -e
W=/verif/.work/base
mkdir -p $W
cp /repo/go.mod $W/base.mod
cp /repo/go.sum $W/base.sum
cd /repo
GOFLAGS=-mod=mod GOPROXY=off GOSUMDB=off go test -modfile=$W/base.mod -vet=off -count=1 -timeout 25m "${@:-./...}"
