#!/usr/bin/env python3
"""mkseeded.py: (re)builds /verif/seeded/<name>/ from /verif/.work/incoming/<name>/ (the
sub-agents' output after confirmation) and the triage logs, and writes seeded/INDEX.md.

Each seeded/<name>/ holds patch.diff, demo_test.go and meta.json. meta.json: the agent's
description (property, what, needs, why_tests_pass, demo_dir, demo_run) plus
  confirmed   - what tools/confirm_mutant.sh observed in a scratch worktree
  ran         - the commands used
  detection   - per property check that was run against the change: exit code, harnesses
                that reported, first message
  status      - caught | missed, with the reason for a miss (notes.json)
Nothing here is ever applied to /repo by a registered command."""
import json, os, re, shutil, sys, glob

ROOT = "/verif"
INC = f"{ROOT}/.work/incoming"
OUT = f"{ROOT}/seeded"
notes = json.load(open(f"{OUT}/notes.json")) if os.path.exists(f"{OUT}/notes.json") else {}

confirm = {}
for f in glob.glob(f"{ROOT}/.work/confirm*.log"):
    for line in open(f):
        p = line.split()
        if len(p) >= 2 and re.match(r"C\d\d-mut\d+", p[0]):
            confirm[p[0]] = dict(x.split("=", 1) for x in p[1:] if "=" in x)

rows = []
for name in sorted(os.listdir(INC)):
    d = f"{INC}/{name}"
    if not os.path.exists(f"{d}/patch.diff"):
        continue
    meta = json.load(open(f"{d}/meta.json"))
    o = f"{OUT}/{name}"
    os.makedirs(o, exist_ok=True)
    shutil.copy(f"{d}/patch.diff", f"{o}/patch.diff")
    shutil.copy(f"{d}/demo_test.go", f"{o}/demo_test.go")
    det = []
    for lg in sorted(glob.glob(f"{d}/triage-*.log")):
        pid = re.search(r"triage-(C\d\d)\.log", lg).group(1)
        txt = open(lg).read()
        vio = re.findall(r"violation in ([^:]+): (.*?) at ", txt)
        final = re.findall(r"^(OK|VIOLATION|INCONCLUSIVE) property=", txt, re.M)
        hs = []
        for h, msg in vio:
            if h not in [x["harness"] for x in hs]:
                hs.append({"harness": h, "message": msg[:200]})
        det.append({"check": pid, "tier": "quick",
                    "result": "VIOLATION" if "VIOLATION" in final else (final[-1] if final else "no result"),
                    "reported_by": hs[:6]})
    caught = any(x["result"] == "VIOLATION" for x in det)
    meta.update({
        "id": name,
        "confirmed": confirm.get(name, {}),
        "ran": [f"tools/confirm_mutant.sh .work/incoming/{name}   # scratch worktree: git apply, go build ./..., go test ./... (existing suite), demo with and without the change",
                f"tools/triage_mutant.sh .work/incoming/{name} <check>   # VERIF_REPO=<scratch worktree with the change> python3 vcheck.py <check> --tier quick"],
        "detection": det,
        "status": "caught" if caught else "missed",
    })
    if name in notes:
        meta["note"] = notes[name]
    json.dump(meta, open(f"{o}/meta.json", "w"), indent=1)
    rows.append((name, meta["property"], meta["status"],
                 "; ".join(f"{x['check']}: " + ", ".join(h["harness"] for h in x["reported_by"][:3]) for x in det if x["result"] == "VIOLATION")
                 or notes.get(name, ""), meta["what"][:160].replace("\n", " ")))

with open(f"{OUT}/INDEX.md", "w") as f:
    f.write("# Seeded changes\n\nEvery directory holds a change to mholt/caddy-l4 written by a sub-agent that saw only the property text, "
            "confirmed in a scratch worktree (builds, existing suite passes, demonstration fails with it and passes without it). "
            "None is ever committed to /repo. To run a check against one: `git -C /repo apply seeded/<id>/patch.diff`, run, `git -C /repo checkout -- .` "
            "(or `tools/triage_mutant.sh`, which uses a scratch worktree instead).\n\n")
    f.write("| change | property | status | reported by (quick tier) / reason for a miss | what it does |\n|---|---|---|---|---|\n")
    for r in rows:
        f.write("| " + " | ".join(x.replace("|", "/") for x in r) + " |\n")
    n = len(rows); c = sum(1 for r in rows if r[2] == "caught")
    f.write(f"\n{c} of {n} caught by the quick tier.\n")
print(f"{len(rows)} seeded changes, {sum(1 for r in rows if r[2]=='caught')} caught")
