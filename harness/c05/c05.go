// Package c05: matching is bounded by timeout and buffer limit, never early,
// fails closed. The real Compile/prefetch/Server.handle run on the engine's
// virtual clock: the wall-clock phase (seconds, nanoseconds) of the start
// instant is symbolic, elapsed time is a discrete-event clock.
package c05

import (
	"io"
	"net"
	"os"
	"time"

	"github.com/mholt/caddy-l4/layer4"
	"go.uber.org/zap"

	"verifharness/vapi"
)

// timedConn is a client whose data arrives after scripted delays and whose
// Read honours the armed read deadline exactly like a socket: data that
// arrives before the deadline is delivered, otherwise the read fails with
// os.ErrDeadlineExceeded at the deadline instant - never before it.
type timedConn struct {
	D        []byte
	pos      int
	timeout  time.Duration
	deadline time.Time
	armedAt  []time.Time
	cleared  int
	timeouts int
	closed   int
	reads    int
	maxReads int
	cx       *layer4.Connection
	maxBuf   int
	flood    bool
}

func (c *timedConn) delay() time.Duration {
	if c.flood {
		return 0
	}
	switch vapi.Choice("delay", 3) {
	case 0:
		return 0
	case 1:
		return c.timeout / 4
	}
	return c.timeout // never arrives in time
}

func (c *timedConn) Read(p []byte) (int, error) {
	c.reads++
	if c.maxReads > 0 && c.reads > c.maxReads {
		vapi.Assume(false)
	}
	if c.cx != nil && layer4.VerifBufLen(c.cx) > c.maxBuf {
		c.maxBuf = layer4.VerifBufLen(c.cx)
	}
	d := c.delay()
	if c.pos >= len(c.D) {
		d = 1000 * time.Hour // the client has nothing more to say
	}
	if !c.deadline.IsZero() {
		remaining := time.Until(c.deadline)
		if d >= remaining {
			if remaining > 0 {
				vapi.Advance(remaining)
			}
			c.timeouts++
			return 0, os.ErrDeadlineExceeded
		}
	} else if c.pos >= len(c.D) {
		return 0, io.EOF // no deadline and nothing to deliver: the peer went away
	}
	vapi.Advance(d)
	max := len(c.D) - c.pos
	if len(p) < max {
		max = len(p)
	}
	n := max
	if !c.flood {
		n = vapi.Int("seg", 1, max)
	}
	copy(p[:n], c.D[c.pos:c.pos+n])
	c.pos += n
	return n, nil
}
func (c *timedConn) Write(p []byte) (int, error)        { return len(p), nil }
func (c *timedConn) Close() error                       { c.closed++; return nil }
func (c *timedConn) LocalAddr() net.Addr                { return &net.TCPAddr{IP: net.IP{10, 0, 0, 1}, Port: 443} }
func (c *timedConn) RemoteAddr() net.Addr               { return &net.TCPAddr{IP: net.IP{10, 0, 0, 2}, Port: 40000} }
func (c *timedConn) SetDeadline(t time.Time) error      { return nil }
func (c *timedConn) SetWriteDeadline(t time.Time) error { return nil }
func (c *timedConn) SetReadDeadline(t time.Time) error {
	c.deadline = t
	if t.IsZero() {
		c.cleared++
	} else {
		c.armedAt = append(c.armedAt, t)
	}
	return nil
}

// hungry never gets enough: it needs more bytes than the client will ever send.
type hungry struct{ n int }

func (m hungry) Match(cx *layer4.Connection) (bool, error) {
	b := make([]byte, m.n)
	if _, err := io.ReadFull(cx, b); err != nil {
		return false, err
	}
	return true, nil
}

type world struct {
	conn     *timedConn
	handlers int
	fallback int
}

type term struct{ w *world }

func (h term) Handle(cx *layer4.Connection, _ layer4.Handler) error {
	h.w.handlers++
	vapi.Cover("route handler ran")
	vapi.Assert(h.w.conn.deadline.IsZero(), "a matched route's handler runs with the matching deadline still armed")
	return nil
}

type fb struct{ w *world }

func (h fb) Handle(cx *layer4.Connection) error {
	h.w.fallback++
	vapi.Cover("fallback ran")
	vapi.Assert(h.w.conn.deadline.IsZero(), "the fallback runs with the matching deadline still armed")
	return nil
}

func timeouts() time.Duration {
	all := []time.Duration{500 * time.Millisecond, 3 * time.Second, time.Millisecond, time.Second}
	return all[vapi.Choice("timeout", vapi.Param("TIMEOUTS", 4))]
}

// VH_tcp: an always-undecided route (needs NEED bytes) next to the clock.
func VH_tcp() {
	w := &world{}
	to := timeouts()
	need := vapi.Int("need", 1, vapi.Param("NEEDMAX", 20000))
	w.conn = &timedConn{D: vapi.Bytes("D", vapi.Param("L", 12000)), timeout: to, maxReads: vapi.Param("ROUNDS", 5), flood: vapi.Param("FLOOD", 0) == 1}
	rl := layer4.RouteList{layer4.VerifNewRoute([]layer4.MatcherSet{{hungry{need}}}, []layer4.NextHandler{term{w}})}
	h := rl.Compile(zap.NewNop(), to, fb{w})
	cx := layer4.WrapConnection(w.conn, make([]byte, 0, layer4.VerifPrefetchChunkSize), zap.NewNop())
	w.conn.cx = cx
	start := time.Now()
	t0 := vapi.Elapsed()
	err := h.Handle(cx)
	el := time.Duration(vapi.Elapsed() - t0)
	vapi.Assert(err == nil, "Handle returned an error")
	// (i) the deadline is one absolute instant for the whole matching phase
	for _, t := range w.conn.armedAt {
		vapi.Assert(t.Sub(start) == to, "a read was issued with a deadline other than start + matching timeout")
	}
	// (iii) buffer bound
	vapi.Assert(w.conn.maxBuf <= layer4.MaxMatchingBytes-1+layer4.VerifPrefetchChunkSize && layer4.VerifBufLen(cx) <= layer4.MaxMatchingBytes-1+layer4.VerifPrefetchChunkSize,
		"more than the matching limit plus one prefetch chunk was buffered")
	if w.conn.timeouts > 0 {
		vapi.Cover("matching timed out")
		// (ii) not before the timeout has elapsed, and not later than the deadline
		vapi.Assert(el >= to, "matching was abandoned before the timeout elapsed")
		vapi.Assert(el == to, "matching outlived its deadline")
		// (iv) fail closed
		vapi.Assert(w.handlers == 0 && w.fallback == 0, "a handler ran after matching timed out")
	} else {
		vapi.Assert(el <= to, "matching took longer than the timeout without timing out")
	}
	if layer4.VerifBufLen(cx) >= layer4.MaxMatchingBytes && w.handlers == 0 {
		vapi.Cover("buffer exhausted")
		vapi.Assert(w.fallback == 0, "the fallback ran after the matching buffer was exhausted")
	}
	if w.handlers > 0 {
		vapi.Assert(layer4.VerifBufLen(cx) >= need, "route matched without the bytes it needs")
	}
	vapi.Log("tcp", w.handlers, w.fallback, w.conn.timeouts)
}

type pass struct{ w *world }

func (p pass) Handle(cx *layer4.Connection, next layer4.Handler) error {
	vapi.Cover("non-terminal route ran")
	vapi.Assert(p.w.conn.deadline.IsZero(), "a matched route's handler runs with the matching deadline still armed")
	return next.Handle(cx)
}

// VH_tcp_after_match: a first route matches at once and passes the connection
// on; the next route stays undecided and the client goes silent: matching must
// still end at start + timeout (the deadline is armed again for every round).
func VH_tcp_after_match() {
	w := &world{}
	to := timeouts()
	w.conn = &timedConn{D: vapi.Bytes("D", vapi.Param("L", 3000)), timeout: to, maxReads: vapi.Param("ROUNDS", 3)}
	rl := layer4.RouteList{
		layer4.VerifNewRoute(nil, []layer4.NextHandler{pass{w}}),
		layer4.VerifNewRoute([]layer4.MatcherSet{{hungry{vapi.Int("need", 1, 4000)}}}, []layer4.NextHandler{term{w}}),
	}
	h := rl.Compile(zap.NewNop(), to, fb{w})
	cx := layer4.WrapConnection(w.conn, make([]byte, 0, layer4.VerifPrefetchChunkSize), zap.NewNop())
	w.conn.cx = cx
	t0 := vapi.Elapsed()
	err := h.Handle(cx)
	el := time.Duration(vapi.Elapsed() - t0)
	vapi.Assert(err == nil, "Handle returned an error")
	vapi.Assert(el <= to, "matching outlived its deadline after an earlier route had matched")
	if w.handlers == 0 && w.fallback == 0 {
		vapi.Cover("matching timed out")
		vapi.Assert(w.conn.timeouts > 0 && el == to, "matching ended without a handler although the timeout had not elapsed")
	}
}

// VH_server: Server.handle closes the connection whatever way matching ends.
func VH_server() {
	w := &world{}
	to := timeouts()
	w.conn = &timedConn{D: vapi.Bytes("D", vapi.Param("L", 3000)), timeout: to, maxReads: vapi.Param("ROUNDS", 3)}
	rl := layer4.RouteList{layer4.VerifNewRoute([]layer4.MatcherSet{{hungry{vapi.Int("need", 1, 4000)}}}, []layer4.NextHandler{term{w}})}
	s := layer4.VerifNewServer(rl, to)
	layer4.VerifServerHandle(s, w.conn)
	vapi.Cover("server handled")
	vapi.Assert(w.conn.closed == 1, "the connection was not closed exactly once after handling")
	if w.conn.timeouts > 0 {
		vapi.Assert(w.handlers == 0, "a handler ran after matching timed out")
	}
}

// ---- UDP: the virtual connection's own deadline handling -----------------------------------

type nullPC struct{}

func (nullPC) ReadFrom(p []byte) (int, net.Addr, error)  { return 0, nil, io.EOF }
func (nullPC) WriteTo(p []byte, a net.Addr) (int, error) { return len(p), nil }
func (nullPC) Close() error                              { return nil }
func (nullPC) LocalAddr() net.Addr                       { return &net.UDPAddr{IP: net.IP{10, 0, 0, 1}, Port: 53} }
func (nullPC) SetDeadline(t time.Time) error             { return nil }
func (nullPC) SetReadDeadline(t time.Time) error         { return nil }
func (nullPC) SetWriteDeadline(t time.Time) error        { return nil }

// VH_udp_deadline: with a deadline armed timeout from now and a silent client,
// a read on the virtual UDP connection fails with a deadline error - at the
// deadline, not before it.
func VH_udp_deadline() {
	to := timeouts()
	pc := layer4.VerifNewPacketConn(nullPC{}, &net.UDPAddr{IP: net.IP{10, 0, 0, 2}, Port: 5353})
	pre := []time.Duration{0, 300 * time.Microsecond}[vapi.Choice("pre", 2)]
	t0 := vapi.Elapsed()
	_ = pc.SetReadDeadline(time.Now().Add(to))
	vapi.Advance(pre) // some time passes before the read is entered (less than any timeout in the set)
	n, err := pc.Read(make([]byte, 16))
	el := time.Duration(vapi.Elapsed() - t0)
	vapi.Log("udp", n, err)
	if err == os.ErrDeadlineExceeded {
		vapi.Cover("udp read timed out")
		vapi.Assert(el >= to, "UDP matching deadline fired before the timeout elapsed")
		vapi.Assert(el <= to+time.Microsecond, "UDP matching deadline fired late")
	} else {
		vapi.Assert(false, "a read on a silent UDP connection with an armed deadline must time out")
	}
}

// VH_udp_rearm: a deadline that is replaced by a later one (nested matching after
// some delay) fires at the later instant - not at the first one, not at the idle timeout.
func VH_udp_rearm() {
	to := timeouts()
	pc := layer4.VerifNewPacketConn(nullPC{}, &net.UDPAddr{IP: net.IP{10, 0, 0, 2}, Port: 5353})
	t0 := vapi.Elapsed()
	_ = pc.SetReadDeadline(time.Now().Add(to))
	gap := to / 2
	vapi.Advance(gap)
	_ = pc.SetReadDeadline(time.Now().Add(to)) // now due at t0 + gap + to
	_, err := pc.Read(make([]byte, 16))
	el := time.Duration(vapi.Elapsed() - t0)
	vapi.Cover("udp read timed out")
	vapi.Assert(err == os.ErrDeadlineExceeded, "a read on a silent UDP connection with an armed deadline must time out")
	vapi.Assert(el >= gap+to, "the replaced UDP deadline fired early")
	vapi.Assert(el <= gap+to+time.Microsecond, "the replaced UDP deadline fired late")
}

// VH_udp_after_match: the router disarms the deadline after a match; a handler that
// keeps reading a silent client is then ended by the idle timeout (EOF after 30 s),
// not by the matching deadline.
func VH_udp_after_match() {
	to := timeouts()
	pc := layer4.VerifNewPacketConn(nullPC{}, &net.UDPAddr{IP: net.IP{10, 0, 0, 2}, Port: 5353})
	t0 := vapi.Elapsed()
	_ = pc.SetReadDeadline(time.Now().Add(to))
	_ = pc.SetReadDeadline(time.Time{}) // matched
	_, err := pc.Read(make([]byte, 16))
	el := time.Duration(vapi.Elapsed() - t0)
	vapi.Cover("udp handler read ended")
	vapi.Assert(err == io.EOF, "a UDP handler's read after matching was ended by the matching deadline")
	vapi.Assert(el >= 30*time.Second && el <= 30*time.Second+time.Microsecond, "a UDP handler's read on a silent client must end at the idle timeout")
}

// VH_udp_data: data that is already queued is delivered even with a deadline armed.
func VH_udp_data() {
	to := timeouts()
	pc := layer4.VerifNewPacketConn(nullPC{}, &net.UDPAddr{IP: net.IP{10, 0, 0, 2}, Port: 5353})
	d := vapi.Bytes("D", 32)
	vapi.Assume(len(d) > 0)
	layer4.VerifPacketConnFeed(pc, d)
	_ = pc.SetReadDeadline(time.Now().Add(to))
	p := make([]byte, 64)
	n, err := pc.Read(p)
	vapi.Cover("udp data delivered")
	vapi.Assert(err == nil && n == len(d), "queued datagram not delivered before the deadline")
	vapi.AssertBytesEqual(p[:n], d, "datagram altered")
}

func init() {
	for name, f := range map[string]func(){
		"VH_tcp": VH_tcp, "VH_server": VH_server, "VH_udp_deadline": VH_udp_deadline, "VH_udp_data": VH_udp_data,
		"VH_tcp_after_match": VH_tcp_after_match, "VH_udp_rearm": VH_udp_rearm, "VH_udp_after_match": VH_udp_after_match,
	} {
		vapi.Register("c05."+name, f)
	}
}
