// Package c09: UDP datagrams are demultiplexed per client, in order; the
// server loop never crashes. The real Server.servePacket (with its reader
// goroutine), packetConn.Read/Write/Close and Server.handle run in the
// engine's goroutine mode on the virtual clock.
package c09

import (
	"net"
	"time"

	"github.com/mholt/caddy-l4/layer4"

	"verifharness/vapi"
)

type dgram struct {
	src  int
	data []byte
}

// scriptPC is the UDP socket: ReadFrom yields the scripted datagrams, then
// blocks (the socket stays open) until the harness shuts it down.
type scriptPC struct {
	script   []dgram
	next     int
	shutdown chan struct{}
	writes   []dgram
}

var addrs = []*net.UDPAddr{{IP: net.IP{10, 0, 0, 11}, Port: 1111}, {IP: net.IP{10, 0, 0, 12}, Port: 2222}}

func (p *scriptPC) ReadFrom(b []byte) (int, net.Addr, error) {
	if p.next < len(p.script) {
		d := p.script[p.next]
		p.next++
		n := copy(b, d.data)
		return n, addrs[d.src], nil
	}
	<-p.shutdown
	return 0, nil, net.ErrClosed
}
func (p *scriptPC) WriteTo(b []byte, a net.Addr) (int, error) {
	src := -1
	for i, x := range addrs {
		if a.String() == x.String() {
			src = i
		}
	}
	p.writes = append(p.writes, dgram{src, append([]byte(nil), b...)})
	return len(b), nil
}
func (p *scriptPC) Close() error                       { return nil }
func (p *scriptPC) LocalAddr() net.Addr                { return &net.UDPAddr{IP: net.IP{10, 0, 0, 1}, Port: 53} }
func (p *scriptPC) SetDeadline(t time.Time) error      { return nil }
func (p *scriptPC) SetReadDeadline(t time.Time) error  { return nil }
func (p *scriptPC) SetWriteDeadline(t time.Time) error { return nil }

type world struct {
	pc    *scriptPC
	kind  int // handler: 0 returns at once, 1 reads once then returns, 2 echoes until EOF/timeout
	reads [][]byte
	from  []int // which client each read belongs to (by the connection's remote address)
	conns int
}

type handler struct{ w *world }

func (h handler) Handle(cx *layer4.Connection, _ layer4.Handler) error {
	w := h.w
	w.conns++
	who := -1
	for i, x := range addrs {
		if cx.RemoteAddr().String() == x.String() {
			who = i
		}
	}
	vapi.Assert(who >= 0, "virtual connection with an unknown remote address")
	switch w.kind {
	case 0:
		return nil
	case 1, 2:
		n := 1
		if w.kind == 2 {
			n = 3
		}
		for i := 0; i < n; i++ {
			p := make([]byte, 64)
			k, err := cx.Read(p)
			if err != nil {
				return nil
			}
			w.reads = append(w.reads, p[:k])
			w.from = append(w.from, who)
			if w.kind == 2 {
				_, _ = cx.Write(p[:k])
			}
		}
	}
	return nil
}

// VH_udp: a burst of datagrams from one or two clients against handlers that
// return early, read once, or echo.
func VH_udp() {
	w := &world{kind: vapi.Param("KIND", -1)}
	if w.kind < 0 {
		w.kind = vapi.Choice("handler", 3)
	}
	n := vapi.Param("DGRAMS", 3)
	pc := &scriptPC{shutdown: make(chan struct{})}
	for i := 0; i < n; i++ {
		src := 0
		if vapi.Param("CLIENTS", 2) > 1 {
			src = vapi.Choice("src", 2)
		}
		pc.script = append(pc.script, dgram{src, vapi.Bytes("dg", 4)})
	}
	w.pc = pc
	rl := layer4.RouteList{layer4.VerifNewRoute(nil, []layer4.NextHandler{handler{w}})}
	s := layer4.VerifNewServer(rl, 3*time.Second)
	done := make(chan error, 1)
	go func() { done <- layer4.VerifServePacket(s, pc) }()
	vapi.Yield()                   // the burst is processed
	vapi.Advance(31 * time.Second) // idle expiry of whatever is still open
	close(pc.shutdown)
	vapi.Yield()
	select {
	case err := <-done:
		vapi.Assert(err != nil, "servePacket returned without an error although the socket failed")
	default:
		vapi.Assert(false, "the server loop did not return after the socket was closed")
	}
	vapi.Cover("served")
	// every read belongs to its own client, in arrival order, without duplication
	pos := []int{0, 0}
	for i, b := range w.reads {
		c := w.from[i]
		// find the next datagram of client c at or after pos[c] that equals b: in-order subsequence
		found := false
		for j := pos[c]; j < len(pc.script) && !found; j++ {
			if pc.script[j].src != c {
				continue
			}
			// datagrams may be skipped only if dropped (UDP loss after a handler returned)
			if len(pc.script[j].data) == len(b) && bytesEq(pc.script[j].data, b) {
				found = true
				pos[c] = j + 1
			}
		}
		vapi.Assert(found, "a virtual connection read bytes that are not the next datagram of its own client")
	}
	for _, wr := range pc.writes {
		vapi.Assert(wr.src >= 0, "a reply was sent to an unknown address")
	}
	if w.kind == 2 {
		// echo: every reply goes to the client whose datagram it answers
		for i, wr := range pc.writes {
			if i < len(w.reads) {
				vapi.Assert(wr.src == w.from[i] && bytesEq(wr.data, w.reads[i]), "a reply was sent to another client's address")
			}
		}
	}
	if w.conns > 1 {
		vapi.Cover("several virtual connections")
	}
	if len(w.reads) > 0 {
		vapi.Cover("datagram read")
	}
}

// ---- idle expiry and resumption ---------------------------------------------------------------

// gatedPC delivers datagram i only after gate i has been closed (gate 0 is open):
// the script reacts to what the server has done so far.
type gatedPC struct {
	scriptPC
	gates []chan struct{}
}

func (p *gatedPC) ReadFrom(b []byte) (int, net.Addr, error) {
	if p.next < len(p.script) {
		<-p.gates[p.next]
		d := p.script[p.next]
		p.next++
		n := copy(b, d.data)
		return n, addrs[d.src], nil
	}
	<-p.shutdown
	return 0, nil, net.ErrClosed
}

type idleWorld struct {
	pc    *gatedPC
	live  int // virtual connections of the client whose Read has not reported the end yet
	conns int
	ends  int
	reads [][]byte
}

type idleHandler struct{ w *idleWorld }

func (h idleHandler) Handle(cx *layer4.Connection, _ layer4.Handler) error {
	w := h.w
	vapi.Assert(w.live == 0, "a datagram was given to a fresh virtual connection although the client's current one has not ended")
	w.live++
	w.conns++
	for i := 0; i < 4; i++ {
		p := make([]byte, 16)
		k, err := cx.Read(p)
		if err != nil {
			break
		}
		w.reads = append(w.reads, p[:k])
		if len(w.reads) == 2 {
			close(w.pc.gates[2]) // the second datagram has been read: the client sends the third
		}
	}
	w.live--
	w.ends++
	if w.ends == 1 {
		close(w.pc.gates[1]) // the first connection has idled out: the client resumes right now
	}
	return nil
}

// VH_udp_idle: a client pauses for longer than the idle timeout and resumes at
// the very moment its virtual connection ends; then sends once more. Every
// datagram must go to the client's one current connection: a fresh one only
// after the previous one has ended.
func VH_udp_idle() {
	w := &idleWorld{}
	pc := &gatedPC{scriptPC: scriptPC{shutdown: make(chan struct{})}, gates: []chan struct{}{make(chan struct{}), make(chan struct{}), make(chan struct{})}}
	close(pc.gates[0])
	for i := 0; i < 3; i++ {
		pc.script = append(pc.script, dgram{0, []byte{byte(0x41 + i), 0x61, 0x62}[:1+i]}) // 1, 2 and 3 bytes long
	}
	w.pc = pc
	rl := layer4.RouteList{layer4.VerifNewRoute(nil, []layer4.NextHandler{idleHandler{w}})}
	s := layer4.VerifNewServer(rl, 3*time.Second)
	done := make(chan error, 1)
	go func() { done <- layer4.VerifServePacket(s, pc) }()
	vapi.Yield()
	vapi.Advance(31 * time.Second) // the first connection idles out; the client resumes
	vapi.Yield()
	vapi.Advance(31 * time.Second) // whatever is open idles out
	close(pc.shutdown)
	vapi.Yield()
	vapi.Cover("served")
	vapi.Assert(len(w.reads) >= 1 && w.reads[0][0] == 0x41, "the first datagram was not delivered")
	if w.conns >= 2 {
		vapi.Cover("resumed on a fresh connection")
	}
	if len(w.reads) == 3 {
		vapi.Cover("all three datagrams read")
		vapi.Assert(w.reads[1][0] == 0x42 && w.reads[2][0] == 0x43, "datagrams out of order")
		vapi.Assert(len(w.reads[0]) == 1 && len(w.reads[1]) == 2 && len(w.reads[2]) == 3, "a datagram was truncated or padded")
	}
}

// VH_udp_burst: one client sends a burst longer than the per-client queue (5) while
// its handler is slow: whatever is delivered is delivered in arrival order, once.
func VH_udp_burst() {
	n := vapi.Param("DGRAMS", 8)
	pc := &scriptPC{shutdown: make(chan struct{})}
	for i := 0; i < n; i++ {
		pc.script = append(pc.script, dgram{0, []byte{byte(i + 1)}})
	}
	var seen []byte
	conns := 0
	rl := layer4.RouteList{layer4.VerifNewRoute(nil, []layer4.NextHandler{burstHandler{&seen, &conns}})}
	s := layer4.VerifNewServer(rl, 3*time.Second)
	go func() { _ = layer4.VerifServePacket(s, pc) }()
	vapi.Yield()
	vapi.Advance(31 * time.Second)
	close(pc.shutdown)
	vapi.Yield()
	vapi.Cover("served")
	last := byte(0)
	for _, b := range seen {
		vapi.Assert(b > last, "datagrams of one client were delivered out of arrival order or twice")
		last = b
	}
	if len(seen) > 5 {
		vapi.Cover("more than the queue capacity delivered")
	}
	vapi.Assert(len(seen) == n, "a datagram of the burst was lost although its connection was alive and reading")
}

type burstHandler struct {
	seen  *[]byte
	conns *int
}

func (h burstHandler) Handle(cx *layer4.Connection, _ layer4.Handler) error {
	*h.conns++
	for {
		p := make([]byte, 8)
		k, err := cx.Read(p)
		if err != nil {
			return nil
		}
		if k == 1 {
			*h.seen = append(*h.seen, p[0])
		}
	}
}

// VH_partial: a datagram larger than the reader's buffer is returned by
// successive reads exactly once, in order; then the next datagram follows.
func VH_partial() {
	pc := layer4.VerifNewPacketConn(&scriptPC{shutdown: make(chan struct{})}, addrs[0])
	d1 := vapi.Bytes("d1", 12)
	d2 := vapi.Bytes("d2", 4)
	vapi.Assume(len(d1) > 0 && len(d2) > 0)
	layer4.VerifPacketConnFeed(pc, d1)
	_ = pc.SetReadDeadline(time.Now().Add(time.Second))
	k := vapi.Int("bufsize", 1, 12)
	pos := 0
	for r := 0; r < 12 && pos < len(d1); r++ {
		if r == 1 {
			// the next datagram arrives (in a buffer fresh from the pool) while d1 is half read
			layer4.VerifPacketConnFeed(pc, d2)
		}
		p := make([]byte, k)
		n, err := pc.Read(p)
		vapi.Assert(err == nil, "a read inside a datagram failed")
		vapi.Assert(n == vapi.Min(k, len(d1)-pos), "partial read returned the wrong number of bytes")
		vapi.AssertBytesEqual(p[:n], d1[pos:pos+n], "partial reads do not return the datagram's bytes in order")
		pos += n
	}
	vapi.Assert(pos == len(d1), "the datagram was not fully returned")
	if k < len(d1) {
		vapi.Cover("datagram read in pieces")
	} else {
		layer4.VerifPacketConnFeed(pc, d2)
	}
	p := make([]byte, 16)
	n, err := pc.Read(p)
	vapi.Assert(err == nil && n == len(d2), "the next datagram did not follow")
	vapi.AssertBytesEqual(p[:n], d2, "the next datagram was altered")
	vapi.Cover("next datagram read")
}

func bytesEq(a, b []byte) bool {
	if len(a) != len(b) {
		return false
	}
	eq := true
	for i := range a {
		eq = vapi.And(eq, a[i] == b[i])
	}
	return eq
}

func init() {
	vapi.Register("c09.VH_udp", VH_udp)
	vapi.Register("c09.VH_udp_idle", VH_udp_idle)
	vapi.Register("c09.VH_udp_burst", VH_udp_burst)
	vapi.Register("c09.VH_partial", VH_partial)
}
