// Package c06: matchers are pure functions of the prefix, insensitive to fragmentation.
package c06

import (
	"github.com/caddyserver/caddy/v2"

	"github.com/mholt/caddy-l4/layer4"
	"github.com/mholt/caddy-l4/modules/l4http"
	"github.com/mholt/caddy-l4/modules/l4openvpn"
	"github.com/mholt/caddy-l4/modules/l4postgres"
	"github.com/mholt/caddy-l4/modules/l4proxyprotocol"
	"github.com/mholt/caddy-l4/modules/l4rdp"
	"github.com/mholt/caddy-l4/modules/l4regexp"
	"github.com/mholt/caddy-l4/modules/l4socks"
	"github.com/mholt/caddy-l4/modules/l4ssh"
	"github.com/mholt/caddy-l4/modules/l4tls"
	"github.com/mholt/caddy-l4/modules/l4winbox"
	"github.com/mholt/caddy-l4/modules/l4xmpp"

	"verifharness/env"
	"verifharness/vapi"
)

type provisioner interface {
	Provision(caddy.Context) error
}

const (
	cT = 2 // (true, nil)
	cF = 1 // (false, nil)
	cN = 0 // need more data
	cE = 3 // another error
)

func class(ok bool, err error) int {
	switch env.ErrClass(err) {
	case "nil":
		if ok {
			return cT
		}
		return cF
	case "needmore":
		return cN
	}
	return cE
}

// eval runs the matcher the way the router does (MatcherSet.Match: freeze,
// Match, unfreeze) on one connection whose buffer holds b, twice, and checks
// purity: no network read, buffer and read position untouched, same verdict.
func eval(m layer4.ConnMatcher, b []byte, tag string) int {
	cx, nc := env.MatchingConn(b, false)
	set := layer4.MatcherSet{m}
	ok, err := set.Match(cx)
	c1 := class(ok, err)
	vapi.Assert(nc.Reads == 0, "matcher read from the network")
	vapi.Assert(layer4.VerifOffset(cx) == 0 && !layer4.VerifMatching(cx), "matching moved the read position")
	vapi.Assert(layer4.VerifBufLen(cx) == len(b), "matching changed the buffer length")
	vapi.AssertBytesEqual(layer4.VerifBuf(cx), b, "matching changed the buffered bytes")
	ok2, err2 := set.Match(cx)
	vapi.Assert(class(ok2, err2) == c1, "repeating the matcher on the same bytes gave a different verdict")
	vapi.Log(tag, c1)
	return c1
}

// frag: the verdict on a prefix D[:P] versus the verdict on the whole D.
func frag(m layer4.ConnMatcher, defLen int, provision bool) {
	if p, ok := m.(provisioner); ok && provision {
		if err := p.Provision(caddy.Context{}); err != nil {
			vapi.Log("provision-error")
			return
		}
	}
	d := vapi.Bytes("D", vapi.Param("L", defLen))
	p := vapi.Int("P", 0, vapi.Param("L", defLen))
	vapi.Assume(p <= len(d))
	whole := eval(m, d, "whole")
	pre := eval(m, d[:p], "prefix")
	if pre == cF {
		vapi.Cover("prefix says no")
		vapi.Assert(whole == cF, "a 'no' on a prefix turned into something else on a longer prefix")
	}
	if whole == cT {
		vapi.Cover("whole message matches")
		vapi.Assert(pre == cT || pre == cN, "a message that matches whole was rejected (or failed) on a proper prefix instead of asking for more data")
	}
	if pre == cN {
		vapi.Cover("prefix needs more")
	}
}

func VH_ssh()      { frag(&l4ssh.MatchSSH{}, 8, false) }
func VH_xmpp()     { frag(&l4xmpp.MatchXMPP{}, 54, false) }
func VH_postgres() { frag(&l4postgres.MatchPostgres{}, 14, false) }
func VH_socks4()   { frag(&l4socks.Socks4Matcher{}, 10, true) }
func VH_socks4_filter() {
	frag(&l4socks.Socks4Matcher{Commands: []string{"BIND"}, Ports: []uint16{80, 443}, Networks: []string{"10.0.0.0/8"}}, 10, true)
}
func VH_socks5()        { frag(&l4socks.Socks5Matcher{}, 8, true) }
func VH_socks5_filter() { frag(&l4socks.Socks5Matcher{AuthMethods: []uint16{1, 2}}, 8, true) }
func VH_proxyproto()    { frag(&l4proxyprotocol.MatchProxyProtocol{}, 14, false) }
func VH_regexp()        { frag(&l4regexp.MatchRegexp{Pattern: "^GET /", Count: 5}, 7, true) }
func VH_tls()           { frag(l4tls.VerifNewMatchTLS(), 5+47, false) }
func VH_rdp()           { frag(&l4rdp.MatchRDP{}, 16, true) }
func VH_winbox()        { frag(&l4winbox.MatchWinbox{}, 40, true) }
func VH_openvpn()       { frag(&l4openvpn.MatchOpenVPN{IgnoreTimestamp: true}, 58, true) }

// VH_http: only inputs the request-line heuristic does not accept (beyond it the matcher is net/http, outside the claim).
func VH_http() {
	m := &l4http.MatchHTTP{}
	d := vapi.Bytes("D", vapi.Param("L", 16))
	_, matched := l4http.VerifIsHttp(d)
	vapi.Assume(!matched)
	p := vapi.Int("P", 0, vapi.Param("L", 16))
	vapi.Assume(p <= len(d))
	_, matchedP := l4http.VerifIsHttp(d[:p])
	vapi.Assume(!matchedP)
	whole := eval(m, d, "whole")
	pre := eval(m, d[:p], "prefix")
	if pre == cF {
		vapi.Cover("prefix says no")
		vapi.Assert(whole == cF, "a 'no' on a prefix turned into something else on a longer prefix")
	}
	if pre == cN {
		vapi.Cover("prefix needs more")
	}
}

func init() {
	for name, f := range map[string]func(){
		"VH_ssh": VH_ssh, "VH_xmpp": VH_xmpp, "VH_postgres": VH_postgres, "VH_socks4": VH_socks4, "VH_socks4_filter": VH_socks4_filter,
		"VH_socks5": VH_socks5, "VH_socks5_filter": VH_socks5_filter, "VH_proxyproto": VH_proxyproto, "VH_regexp": VH_regexp,
		"VH_tls": VH_tls, "VH_rdp": VH_rdp, "VH_winbox": VH_winbox, "VH_openvpn": VH_openvpn, "VH_http": VH_http,
	} {
		vapi.Register("c06."+name, f)
	}
}
