// Package c16: the SOCKS5 handler serves only enabled commands and only
// authenticated clients. The real Provision and Handle run, the library's
// negotiation / authentication / request parsing is executed from SSA on an
// arbitrary client byte stream; the three outbound actions are intercepted.
package c16

import (
	"context"
	"io"
	"net"

	"github.com/caddyserver/caddy/v2"
	"github.com/things-go/go-socks5"
	"go.uber.org/zap"

	"github.com/mholt/caddy-l4/layer4"
	"github.com/mholt/caddy-l4/modules/l4socks"

	"verifharness/env"
	"verifharness/vapi"
)

var sink int // 0 none, 1 CONNECT, 2 BIND, 3 ASSOCIATE (set by the intercepted outbound actions)

//verif:replace (*github.com/things-go/go-socks5.Server).handleConnect
func Repl_connect(s *socks5.Server, ctx context.Context, w io.Writer, r *socks5.Request) error {
	sink = 1
	return nil
}

//verif:replace (*github.com/things-go/go-socks5.Server).handleBind
func Repl_bind(s *socks5.Server, ctx context.Context, w io.Writer, r *socks5.Request) error {
	sink = 2
	return nil
}

//verif:replace (*github.com/things-go/go-socks5.Server).handleAssociate
func Repl_associate(s *socks5.Server, ctx context.Context, w io.Writer, r *socks5.Request) error {
	sink = 3
	return nil
}

//verif:replace (github.com/things-go/go-socks5.DNSResolver).Resolve
func Repl_resolve(d socks5.DNSResolver, ctx context.Context, name string) (context.Context, net.IP, error) {
	return ctx, net.IP{192, 0, 2, 9}, nil
}

type config struct {
	commands []string
	creds    map[string]string
	enabled  [4]bool // by command code 1..3
	pairs    [][2]string
}

var configs = []config{
	{nil, nil, [4]bool{false, true, false, true}, nil},
	{[]string{"connect"}, nil, [4]bool{false, true, false, false}, nil},
	{[]string{"BIND"}, map[string]string{"u": "p"}, [4]bool{false, false, true, false}, [][2]string{{"u", "p"}}},
	{[]string{"ASSOCIATE", "BIND"}, map[string]string{"a": "", "bb": "c"}, [4]bool{false, false, true, true}, [][2]string{{"a", ""}, {"bb", "c"}}},
	{nil, map[string]string{"": "secret"}, [4]bool{false, true, false, true}, nil}, // only an empty user name: nobody can authenticate
	// user names given as placeholders that resolve to nothing: those accounts do not exist
	{nil, map[string]string{"{env.VERIF_C16_UNSET_USER}": "{env.VERIF_C16_UNSET_PASS}"}, [4]bool{false, true, false, true}, nil},
	{[]string{"CONNECT"}, map[string]string{"{env.VERIF_C16_UNSET_USER}": "", "u": "p"}, [4]bool{false, true, false, false}, [][2]string{{"u", "p"}}},
	{[]string{"BIND"}, nil, [4]bool{false, false, true, false}, nil},
	{[]string{"associate"}, nil, [4]bool{false, false, false, true}, nil},
	{[]string{"BIND"}, map[string]string{"u": "q"}, [4]bool{false, false, true, false}, [][2]string{{"u", "q"}}}, // cfg 2 after a password rotation
}

func bytesEq(d []byte, off, n int, s string) bool {
	if n != len(s) {
		return false
	}
	for i := 0; i < len(s); i++ {
		if d[off+i] != s[i] {
			return false
		}
	}
	return true
}

// attempted reports whether an outbound action was started: under the engine
// the intercepted sinks say so; natively the final reply does (refusals carry
// rule-failure / command-not-supported / address-type codes, an attempted
// action any other code).
func attempted(written []byte, authed bool) (bool, int) {
	if sink != 0 {
		return true, sink
	}
	off := 2
	if len(written) >= 2 && written[1] == 2 { // the server selected username/password: its status reply precedes the final one
		off = 4
	}
	if len(written) >= off+2 && written[off] == 5 {
		rep := written[off+1]
		if rep != 2 && rep != 7 && rep != 8 {
			return true, 0
		}
	}
	return false, 0
}

func VH_socks5() {
	sink = 0
	ci := vapi.Param("CFG", -1)
	if ci < 0 {
		ci = vapi.Choice("config", len(configs))
	}
	cfg := configs[ci]
	h := &l4socks.Socks5Handler{Commands: cfg.commands, Credentials: cfg.creds}
	vapi.Assert(h.Provision(caddy.Context{}) == nil, "provision")
	serve(h, cfg, ci)
}

// VH_socks5_pair: a second handler instance with a different configuration is
// provisioned after the first (another route, or a config reload); the first
// one keeps serving exactly what it was configured for.
func VH_socks5_pair() {
	sink = 0
	// {first, second, which one serves}: the last pair is a reload that rotates a password
	pairs := [][3]int{{1, 8, 0}, {0, 7, 0}, {7, 1, 0}, {8, 0, 0}, {2, 9, 1}, {9, 2, 1}}
	pi := vapi.Param("PAIR", -1)
	if pi < 0 {
		pi = vapi.Choice("pair", len(pairs))
	}
	a, b := configs[pairs[pi][0]], configs[pairs[pi][1]]
	ha := &l4socks.Socks5Handler{Commands: a.commands, Credentials: a.creds}
	vapi.Assert(ha.Provision(caddy.Context{}) == nil, "provision")
	hb := &l4socks.Socks5Handler{Commands: b.commands, Credentials: b.creds}
	vapi.Assert(hb.Provision(caddy.Context{}) == nil, "provision")
	vapi.Cover("second handler provisioned")
	if pairs[pi][2] == 1 {
		serve(hb, b, pairs[pi][1])
		return
	}
	serve(ha, a, pairs[pi][0])
}

func serve(h *l4socks.Socks5Handler, cfg config, ci int) {
	d := vapi.Bytes("D", vapi.Param("L", 22))
	conn := &env.SymConn{D: d, MaxReads: vapi.Param("ROUNDS", 2)}
	cx := layer4.WrapConnection(conn, nil, zap.NewNop())
	err := h.Handle(cx, nil)
	needAuth := len(cfg.creds) > 0
	att, cmdSink := attempted(conn.Written, needAuth)
	vapi.Log("socks5", ci, att, err)
	if !att {
		vapi.Cover("refused")
		return
	}
	vapi.Cover("outbound action attempted")
	// what did the client send? (RFC 1928 / 1929 framing, re-parsed independently)
	vapi.Assert(len(d) >= 2 && d[0] == 5, "served a client that did not speak SOCKS5")
	n := int(d[1])
	off := 2 + n
	if needAuth {
		vapi.Assert(len(d) >= off+2, "authenticated without credentials on the wire")
		ulen := int(d[off+1])
		uoff := off + 2
		vapi.Assert(len(d) >= uoff+ulen+1, "authenticated without credentials on the wire")
		plen := int(d[uoff+ulen])
		poff := uoff + ulen + 1
		vapi.Assert(len(d) >= poff+plen, "authenticated without credentials on the wire")
		ok := false
		for _, p := range cfg.pairs {
			if bytesEq(d, uoff, ulen, p[0]) && bytesEq(d, poff, plen, p[1]) {
				ok = true
			}
		}
		vapi.Assert(ok, "an outbound action was started for a client that did not present configured credentials")
		off = poff + plen
		vapi.Cover("authenticated")
	}
	vapi.Assert(len(d) >= off+2, "request missing")
	cmd := int(d[off+1])
	vapi.Assert(cmd >= 1 && cmd <= 3 && cfg.enabled[cmd], "an outbound action was started for a command that is not enabled")
	if cmdSink != 0 {
		vapi.Assert(cmdSink == cmd, "the executed command differs from the requested one")
	}
}

func init() {
	vapi.Register("c16.VH_socks5", VH_socks5)
	vapi.Register("c16.VH_socks5_pair", VH_socks5_pair)
}
