// Package all links every harness package into the native runner.
package all

import (
	_ "verifharness/c01"
	_ "verifharness/c02"
	_ "verifharness/c04"
	_ "verifharness/c05"
	_ "verifharness/c06"
	_ "verifharness/c07"
	_ "verifharness/c08"
	_ "verifharness/c09"
	_ "verifharness/c10"
	_ "verifharness/c10r"
	_ "verifharness/c11"
	_ "verifharness/c13"
	_ "verifharness/c14"
	_ "verifharness/c16"
	_ "verifharness/c17"
	_ "verifharness/c18"
)
