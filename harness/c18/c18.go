// Package c18: wire-message codecs are exact inverses and reject wrong lengths.
package c18

import (
	"bytes"

	"github.com/mholt/caddy-l4/modules/l4openvpn"
	"github.com/mholt/caddy-l4/modules/l4rdp"
	"github.com/mholt/caddy-l4/modules/l4winbox"
	"github.com/mholt/caddy-l4/modules/l4wireguard"

	"verifharness/vapi"
)

// roundTrip: for every byte string b of length <= maxLen: if the parser accepts b,
// (1) len(b) is one of the type's legal sizes and (2) serialising reproduces b.
func roundTrip(maxLen int, legal func(n int) bool, parse func(b []byte) (bool, []byte)) {
	b := vapi.Bytes("B", maxLen)
	ok, out := parse(b)
	if ok {
		vapi.Cover("accepted")
		vapi.Assert(legal(len(b)), "parser accepted an input of the wrong length")
		vapi.AssertBytesEqual(out, b, "ToBytes(FromBytes(b)) != b")
	} else {
		vapi.Cover("rejected")
	}
	vapi.Log("parsed", ok, len(b))
}

func eq(n int) func(int) bool { return func(k int) bool { return k == n } }
func between(lo, hi int) func(int) bool {
	return func(k int) bool { return k >= lo && k <= hi }
}

// ---- OpenVPN ---------------------------------------------------------------------

func VH_ovpn_header() {
	roundTrip(3, eq(1), func(b []byte) (bool, []byte) {
		m := &l4openvpn.MessageHeader{}
		if m.FromBytes(b) != nil {
			return false, nil
		}
		return true, m.ToBytes()
	})
}

func VH_ovpn_plain() {
	roundTrip(l4openvpn.MessagePlainBytesTotal+2, eq(l4openvpn.MessagePlainBytesTotal), func(b []byte) (bool, []byte) {
		m := &l4openvpn.MessagePlain{}
		if m.FromBytes(b) != nil {
			return false, nil
		}
		return true, m.ToBytes()
	})
}

func VH_ovpn_auth() {
	roundTrip(l4openvpn.MessageAuthBytesMax+2, between(l4openvpn.MessageAuthBytesMin, l4openvpn.MessageAuthBytesMax), func(b []byte) (bool, []byte) {
		m := &l4openvpn.MessageAuth{}
		if m.FromBytes(b) != nil {
			return false, nil
		}
		return true, m.ToBytes()
	})
}

func VH_ovpn_crypt() {
	roundTrip(l4openvpn.MessageCryptBytesTotal+2, eq(l4openvpn.MessageCryptBytesTotal), func(b []byte) (bool, []byte) {
		m := &l4openvpn.MessageCrypt{}
		if m.FromBytes(b) != nil {
			return false, nil
		}
		return true, m.ToBytes()
	})
}

func VH_ovpn_crypt2() {
	roundTrip(l4openvpn.MessageCrypt2BytesMax+2, between(l4openvpn.MessageCrypt2BytesMin, l4openvpn.MessageCrypt2BytesMax), func(b []byte) (bool, []byte) {
		m := &l4openvpn.MessageCrypt2{}
		if m.FromBytes(b) != nil {
			return false, nil
		}
		return true, m.ToBytes()
	})
}

func VH_ovpn_wrappedkey() {
	roundTrip(l4openvpn.WrappedKeyBytesMax+2, between(l4openvpn.WrappedKeyBytesMin, l4openvpn.WrappedKeyBytesMax), func(b []byte) (bool, []byte) {
		m := &l4openvpn.WrappedKey{}
		if m.FromBytes(b) != nil {
			return false, nil
		}
		return true, m.ToBytes()
	})
}

// serialise-then-parse for messages built from arbitrary field values
func VH_ovpn_plain_fields() {
	m := &l4openvpn.MessagePlain{}
	m.Opcode = vapi.Uint8("opcode")
	m.KeyID = vapi.Uint8("keyid")
	vapi.Assume(m.Opcode < 32 && m.KeyID < 8)
	m.LocalSessionID = vapi.Uint64("sid")
	m.PrevPacketIDsCount = vapi.Uint8("cnt")
	m.ThisPacketID = vapi.Uint32("pid")
	b := m.ToBytes()
	vapi.Assert(len(b) == l4openvpn.MessagePlainBytesTotal, "serialised length")
	p := &l4openvpn.MessagePlain{}
	err := p.FromBytes(b)
	if m.Opcode == l4openvpn.OpcodeControlHardResetClientV2 {
		vapi.Cover("accepted")
		vapi.Assert(err == nil, "FromBytes(ToBytes(x)) failed")
		vapi.Assert(*p == *m, "FromBytes(ToBytes(x)) != x")
	} else {
		vapi.Cover("rejected")
		vapi.Assert(err != nil, "wrong opcode accepted")
	}
}

func VH_ovpn_auth_fields() {
	m := &l4openvpn.MessageAuth{}
	m.Opcode = l4openvpn.OpcodeControlHardResetClientV2
	m.KeyID = vapi.Uint8("keyid")
	vapi.Assume(m.KeyID < 8)
	m.LocalSessionID = vapi.Uint64("sid")
	m.PrevPacketIDsCount = vapi.Uint8("cnt")
	m.ThisPacketID = vapi.Uint32("pid")
	m.ReplayPacketID = vapi.Uint32("rpid")
	m.ReplayTimestamp = vapi.Uint32("rts")
	hl := []int{16, 20, 28, 32, 48, 64}[vapi.Choice("hmaclen", 6)]
	m.HMAC = vapi.BytesN("hmac", hl)
	b := m.ToBytes()
	p := &l4openvpn.MessageAuth{}
	err := p.FromBytes(b)
	vapi.Cover("accepted")
	vapi.Assert(err == nil, "FromBytes(ToBytes(x)) failed")
	vapi.Assert(p.MessagePlain == m.MessagePlain && p.MessageTraitReplay == m.MessageTraitReplay && bytes.Equal(p.HMAC, m.HMAC), "FromBytes(ToBytes(x)) != x")
}

// ---- WireGuard ---------------------------------------------------------------------

func VH_wg_initiation() {
	roundTrip(l4wireguard.MessageInitiationBytesTotal+2, eq(l4wireguard.MessageInitiationBytesTotal), func(b []byte) (bool, []byte) {
		m := &l4wireguard.MessageInitiation{}
		if m.FromBytes(b) != nil {
			return false, nil
		}
		out, err := m.ToBytes()
		vapi.Assert(err == nil, "ToBytes failed")
		return true, out
	})
}

func VH_wg_transport() {
	roundTrip(l4wireguard.MessageTransportBytesMin+8, func(n int) bool { return n >= 16 }, func(b []byte) (bool, []byte) {
		m := &l4wireguard.MessageTransport{}
		if m.FromBytes(b) != nil {
			return false, nil
		}
		out, err := m.ToBytes()
		vapi.Assert(err == nil, "ToBytes failed")
		return true, out
	})
}

func VH_wg_initiation_fields() {
	m := &l4wireguard.MessageInitiation{Type: vapi.Uint32("type"), Sender: vapi.Uint32("sender")}
	copy(m.Ephemeral[:], vapi.BytesN("eph", 32))
	copy(m.Static[:], vapi.BytesN("static", 48))
	copy(m.Timestamp[:], vapi.BytesN("ts", 28))
	copy(m.MAC1[:], vapi.BytesN("mac1", 16))
	copy(m.MAC2[:], vapi.BytesN("mac2", 16))
	b, err := m.ToBytes()
	vapi.Assert(err == nil && len(b) == l4wireguard.MessageInitiationBytesTotal, "serialised length")
	p := &l4wireguard.MessageInitiation{}
	vapi.Assert(p.FromBytes(b) == nil, "FromBytes(ToBytes(x)) failed")
	vapi.Cover("accepted")
	vapi.Assert(*p == *m, "FromBytes(ToBytes(x)) != x")
}

// ---- RDP -------------------------------------------------------------------------------

func VH_rdp_tpkt() {
	roundTrip(6, eq(4), func(b []byte) (bool, []byte) {
		m := &l4rdp.TPKTHeader{}
		if m.FromBytes(b) != nil {
			return false, nil
		}
		out, err := m.ToBytes()
		vapi.Assert(err == nil, "ToBytes failed")
		return true, out
	})
}

func VH_rdp_x224() {
	roundTrip(9, eq(7), func(b []byte) (bool, []byte) {
		m := &l4rdp.X224Crq{}
		if m.FromBytes(b) != nil {
			return false, nil
		}
		out, err := m.ToBytes()
		vapi.Assert(err == nil, "ToBytes failed")
		return true, out
	})
}

func VH_rdp_negreq() {
	roundTrip(10, eq(8), func(b []byte) (bool, []byte) {
		m := &l4rdp.RDPNegReq{}
		if m.FromBytes(b) != nil {
			return false, nil
		}
		out, err := m.ToBytes()
		vapi.Assert(err == nil, "ToBytes failed")
		return true, out
	})
}

func VH_rdp_corrinfo() {
	roundTrip(38, eq(36), func(b []byte) (bool, []byte) {
		m := &l4rdp.RDPCorrInfo{}
		if m.FromBytes(b) != nil {
			return false, nil
		}
		out, err := m.ToBytes()
		vapi.Assert(err == nil, "ToBytes failed")
		return true, out
	})
}

func VH_rdp_token() {
	roundTrip(24, func(n int) bool { return n >= 11 }, func(b []byte) (bool, []byte) {
		m := &l4rdp.RDPToken{}
		if m.FromBytes(b) != nil {
			return false, nil
		}
		out, err := m.ToBytes()
		vapi.Assert(err == nil, "ToBytes failed")
		return true, out
	})
}

func VH_rdp_negreq_fields() {
	m := &l4rdp.RDPNegReq{Type: vapi.Uint8("t"), Flags: vapi.Uint8("f"), Length: vapi.Uint16("l"), Protocols: vapi.Uint32("p")}
	b, err := m.ToBytes()
	vapi.Assert(err == nil && len(b) == 8, "serialised length")
	p := &l4rdp.RDPNegReq{}
	vapi.Assert(p.FromBytes(b) == nil, "FromBytes(ToBytes(x)) failed")
	vapi.Cover("accepted")
	vapi.Assert(*p == *m, "FromBytes(ToBytes(x)) != x")
}

// ---- Winbox ---------------------------------------------------------------------------------

func VH_winbox_auth() {
	roundTrip(vapi.Param("L", 44), func(n int) bool { return n >= l4winbox.MessageAuthBytesMin && n <= l4winbox.MessageAuthBytesMax }, func(b []byte) (bool, []byte) {
		m := &l4winbox.MessageAuth{}
		if m.FromBytes(b) != nil {
			return false, nil
		}
		return true, m.ToBytes()
	})
}

// VH_winbox_fields: serialise-then-parse for auth messages built from arbitrary
// field values, with user names around the 255-byte chunk boundary.
func VH_winbox_fields() {
	ulen := vapi.Int("ulen", vapi.Param("UMIN", 1), vapi.Param("UMAX", 8))
	user := vapi.BytesN("user", vapi.Param("UMAX", 8))[:ulen]
	for i := 0; i < len(user); i++ {
		c := user[i]
		vapi.Assume((c >= 'a' && c <= 'z') || (c >= '0' && c <= '9'))
	}
	name := string(user)
	romon := vapi.Bool("romon")
	if romon {
		name += "+r" // RoMON mode: the wire name is the user name plus this suffix
	}
	m := &l4winbox.MessageAuth{Username: name, PublicKeyBytes: vapi.BytesN("key", 32), PublicKeyParity: vapi.Uint8("parity") & 1}
	b := m.ToBytes()
	p := &l4winbox.MessageAuth{}
	err := p.FromBytes(b)
	vapi.Cover("accepted")
	vapi.Assert(err == nil, "FromBytes(ToBytes(x)) failed")
	vapi.Assert(p.Username == m.Username && p.PublicKeyParity == m.PublicKeyParity && bytes.Equal(p.PublicKeyBytes, m.PublicKeyBytes), "FromBytes(ToBytes(x)) != x")
	vapi.Assert(p.GetRoMON() == romon && p.GetUsername() == string(user), "the parsed message does not report the user name / RoMON mode it was built with")
	if romon {
		vapi.Cover("romon")
	}
}

// VH_winbox_boundary: user names whose serialised payload straddles the
// 255-byte chunk size (payload = len(user)+34): lengths 219..224 and 476..478.
func VH_winbox_boundary() {
	lens := []int{219, 220, 221, 222, 223, 224}
	ulen := lens[vapi.Choice("ulen", len(lens))]
	user := make([]byte, ulen)
	for i := range user {
		user[i] = 'a'
	}
	m := &l4winbox.MessageAuth{Username: string(user), PublicKeyBytes: vapi.BytesN("key", 32), PublicKeyParity: vapi.Uint8("parity") & 1}
	b := m.ToBytes()
	p := &l4winbox.MessageAuth{}
	err := p.FromBytes(b)
	vapi.Cover("accepted")
	vapi.Assert(err == nil, "FromBytes(ToBytes(x)) failed")
	vapi.Assert(p.Username == m.Username && p.PublicKeyParity == m.PublicKeyParity && bytes.Equal(p.PublicKeyBytes, m.PublicKeyBytes), "FromBytes(ToBytes(x)) != x")
}

func init() {
	vapi.Register("c18.VH_winbox_fields", VH_winbox_fields)
	vapi.Register("c18.VH_winbox_boundary", VH_winbox_boundary)
	for name, f := range map[string]func(){
		"VH_ovpn_header": VH_ovpn_header, "VH_ovpn_plain": VH_ovpn_plain, "VH_ovpn_auth": VH_ovpn_auth, "VH_ovpn_crypt": VH_ovpn_crypt,
		"VH_ovpn_crypt2": VH_ovpn_crypt2, "VH_ovpn_wrappedkey": VH_ovpn_wrappedkey, "VH_ovpn_plain_fields": VH_ovpn_plain_fields,
		"VH_ovpn_auth_fields": VH_ovpn_auth_fields, "VH_wg_initiation": VH_wg_initiation, "VH_wg_transport": VH_wg_transport,
		"VH_wg_initiation_fields": VH_wg_initiation_fields, "VH_rdp_tpkt": VH_rdp_tpkt, "VH_rdp_x224": VH_rdp_x224,
		"VH_rdp_negreq": VH_rdp_negreq, "VH_rdp_corrinfo": VH_rdp_corrinfo, "VH_rdp_token": VH_rdp_token,
		"VH_rdp_negreq_fields": VH_rdp_negreq_fields, "VH_winbox_auth": VH_winbox_auth,
	} {
		vapi.Register("c18."+name, f)
	}
}
