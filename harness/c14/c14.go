// Package c14: protocol matchers accept exactly what the wire definition and
// the configured filters say. For every complete first message (the whole
// buffer) the real Match is compared with a reference predicate written from
// the protocol definition, not from the matcher's code.
package c14

import (
	"net"
	"time"

	"github.com/caddyserver/caddy/v2"
	"github.com/miekg/dns"

	"github.com/mholt/caddy-l4/layer4"
	"github.com/mholt/caddy-l4/modules/l4clock"
	"github.com/mholt/caddy-l4/modules/l4dns"
	"github.com/mholt/caddy-l4/modules/l4http"
	"github.com/mholt/caddy-l4/modules/l4openvpn"
	"github.com/mholt/caddy-l4/modules/l4postgres"
	"github.com/mholt/caddy-l4/modules/l4proxyprotocol"
	"github.com/mholt/caddy-l4/modules/l4rdp"
	"github.com/mholt/caddy-l4/modules/l4regexp"
	"github.com/mholt/caddy-l4/modules/l4socks"
	"github.com/mholt/caddy-l4/modules/l4ssh"
	"github.com/mholt/caddy-l4/modules/l4winbox"
	"github.com/mholt/caddy-l4/modules/l4wireguard"
	"github.com/mholt/caddy-l4/modules/l4xmpp"

	"verifharness/env"
	"verifharness/vapi"
)

type provisioner interface {
	Provision(caddy.Context) error
}

// run evaluates m on the complete first message d and returns "matched".
func run(m layer4.ConnMatcher, d []byte, udp bool) bool {
	if p, ok := m.(provisioner); ok {
		vapi.Assert(p.Provision(caddy.Context{}) == nil, "provision failed")
	}
	cx, _ := env.MatchingConn(d, udp)
	layer4.VerifFreeze(cx)
	ok, err := m.Match(cx)
	layer4.VerifUnfreeze(cx)
	vapi.Log("verdict", ok, env.ErrClass(err))
	return ok && err == nil
}

// iff: the matcher and the reference agree.
func iff(matched, wf bool, what string) {
	if wf {
		vapi.Cover("well-formed")
		vapi.Assert(matched, what+": a well-formed message satisfying the filters was not matched")
	} else {
		vapi.Cover("violating")
		vapi.Assert(!matched, what+": a message violating the definition or a filter was matched")
	}
}

func hasPrefix(d []byte, s string) bool {
	if len(d) < len(s) {
		return false
	}
	for i := 0; i < len(s); i++ {
		if d[i] != s[i] {
			return false
		}
	}
	return true
}

// ---- SSH (RFC 4253 4.2: identification string starts with "SSH-") ------------------------
func VH_ssh() {
	d := vapi.Bytes("D", 8)
	iff(run(&l4ssh.MatchSSH{}, d, false), hasPrefix(d, "SSH-"), "ssh")
}

// ---- XMPP (stream header carries the jabber: namespace within the first 50 bytes) --------
func VH_xmpp() {
	d := vapi.Bytes("D", 54)
	wf := false
	if len(d) >= 50 {
		for i := 0; i+6 <= 50; i++ {
			x := (d[i] ^ 'j') | (d[i+1] ^ 'a') | (d[i+2] ^ 'b') | (d[i+3] ^ 'b') | (d[i+4] ^ 'e') | (d[i+5] ^ 'r')
			wf = vapi.Or(wf, x == 0)
		}
	}
	iff(run(&l4xmpp.MatchXMPP{}, d, false), wf, "xmpp")
}

// ---- PROXY protocol (v1 text prefix / v2 12-byte signature) -------------------------------------
func VH_proxyproto() {
	d := vapi.Bytes("D", 16)
	sig := "\r\n\r\n\x00\r\nQUIT\n"
	wf := len(d) >= 12 && (hasPrefix(d, "PROXY") || hasPrefix(d, sig))
	iff(run(&l4proxyprotocol.MatchProxyProtocol{}, d, false), wf, "proxy_protocol")
}

// ---- SOCKS4 (VN CD DSTPORT DSTIP) ------------------------------------------------------------------
func socks4Ref(d []byte, cmds []byte, ports []uint16, in func(a, b, c, e byte) bool) bool {
	if len(d) < 8 || d[0] != 4 {
		return false
	}
	okc := false
	for _, c := range cmds {
		if d[1] == c {
			okc = true
		}
	}
	if !okc {
		return false
	}
	if len(ports) > 0 {
		p := uint16(d[2])<<8 | uint16(d[3])
		okp := false
		for _, q := range ports {
			if p == q {
				okp = true
			}
		}
		if !okp {
			return false
		}
	}
	return in == nil || in(d[4], d[5], d[6], d[7])
}

func VH_socks4() {
	d := vapi.Bytes("D", 10)
	iff(run(&l4socks.Socks4Matcher{}, d, false), socks4Ref(d, []byte{1, 2}, nil, nil), "socks4")
}

func VH_socks4_filter() {
	d := vapi.Bytes("D", 10)
	m := &l4socks.Socks4Matcher{Commands: []string{"bind"}, Ports: []uint16{80, 443}, Networks: []string{"10.0.0.0/8", "192.168.1.7", "172.16.0.0/12"}}
	in := func(a, b, c, e byte) bool {
		return a == 10 || (a == 192 && b == 168 && c == 1 && e == 7) || (a == 172 && b&0xF0 == 16)
	}
	iff(run(m, d, false), socks4Ref(d, []byte{2}, []uint16{80, 443}, in), "socks4 with filters")
}

// ---- SOCKS5 (VER NMETHODS METHODS) ------------------------------------------------------------------
func socks5(m *l4socks.Socks5Matcher, allowed func(byte) bool, what string) {
	d := vapi.Bytes("D", 8)
	matched := run(m, d, false)
	complete := len(d) >= 2 && len(d) >= 2+int(d[1])
	if complete && d[0] == 5 && d[1] >= 1 {
		all := true
		for i := 0; i < int(d[1]); i++ {
			if !allowed(d[2+i]) {
				all = false
			}
		}
		if all {
			vapi.Cover("well-formed")
			vapi.Assert(matched, what+": a well-formed greeting with allowed methods was not matched")
		} else {
			vapi.Cover("violating")
			vapi.Assert(!matched, what+": a greeting offering a method that is not allowed was matched")
		}
	}
	if len(d) >= 1 && d[0] != 5 {
		vapi.Cover("violating")
		vapi.Assert(!matched, what+": wrong version matched")
	}
}

func VH_socks5() {
	socks5(&l4socks.Socks5Matcher{}, func(b byte) bool { return b <= 2 }, "socks5")
}
func VH_socks5_filter() {
	socks5(&l4socks.Socks5Matcher{AuthMethods: []uint16{2, 128}}, func(b byte) bool { return b == 2 || b == 128 }, "socks5 with auth_methods")
}

// ---- regexp (the first count bytes handed to the expression) ---------------------------------------------
func VH_regexp() {
	d := vapi.Bytes("D", 6)
	m := &l4regexp.MatchRegexp{Pattern: "^[a-z]+-[0-9]$", Count: 4}
	wf := len(d) >= 4 && d[0] >= 'a' && d[0] <= 'z' && d[1] >= 'a' && d[1] <= 'z' && d[2] == '-' && d[3] >= '0' && d[3] <= '9'
	iff(run(m, d, false), wf, "regexp")
}

// ---- WireGuard (type word little endian, sizes 148 / 32) -----------------------------------------------------
func wg(zero uint32, what string) {
	d := vapi.Bytes("D", 150)
	m := &l4wireguard.MatchWireGuard{Zero: zero}
	wf := false
	if len(d) >= 4 {
		ty := uint32(d[0]) | uint32(d[1])<<8 | uint32(d[2])<<16 | uint32(d[3])<<24
		res := zero & 0xFFFFFF00
		wf = (len(d) == 148 && ty == res|1) || (len(d) == 32 && ty == res|4)
	}
	iff(run(m, d, true), wf, what)
}
func VH_wireguard()      { wg(0, "wireguard") }
func VH_wireguard_zero() { wg(0xFF770000, "wireguard with zero filter") }

// ---- Postgres ------------------------------------------------------------------------------------------------------
func be32(d []byte, o int) uint32 {
	return uint32(d[o])<<24 | uint32(d[o+1])<<16 | uint32(d[o+2])<<8 | uint32(d[o+3])
}

func VH_postgres() {
	d := vapi.Bytes("D", 14)
	matched := run(&l4postgres.MatchPostgres{}, d, false)
	if len(d) >= 8 && int(be32(d, 0)) == len(d) {
		code := be32(d, 4)
		if code == 80877103 {
			vapi.Cover("well-formed")
			vapi.Assert(matched, "postgres: SSLRequest was not matched")
		} else if code>>16 < 3 {
			vapi.Cover("violating")
			vapi.Assert(!matched, "postgres: protocol version below 3 was matched")
		} else if len(d) == 13 && d[8] != 0 && d[9] == 0 && d[10] != 0 && d[11] == 0 && d[12] == 0 {
			// StartupMessage with one one-byte parameter name and value, properly terminated
			vapi.Cover("startup message")
			vapi.Assert(matched, "postgres: a well-formed v3 startup message was not matched")
		} else if len(d) == 9 && d[8] == 0 {
			vapi.Cover("violating")
			vapi.Assert(!matched, "postgres: a startup message without parameters was matched")
		}
	}
	if len(d) >= 4 && be32(d, 0) < 8 {
		vapi.Cover("violating")
		vapi.Assert(!matched, "postgres: a length word below 8 was matched")
	}
}

// ---- HTTP request-line heuristic ----------------------------------------------------------------------------------------
func VH_ishttp() {
	d := vapi.Bytes("D", 24)
	needMore, matched := l4http.VerifIsHttp(d)
	// reference: the first line ends "SP HTTP/x.y CR? LF" at offset >= 10
	lf := -1
	for i := 0; i < len(d); i++ {
		if d[i] == '\n' {
			lf = i
			break
		}
	}
	if lf < 10 {
		vapi.Cover("violating")
		vapi.Assert(needMore && !matched, "isHttp: decided without a complete request line")
		return
	}
	end := lf
	if d[lf-1] == '\r' {
		end = lf - 1
	}
	wf := end >= 9 && d[end-9] == ' ' && d[end-8] == 'H' && d[end-7] == 'T' && d[end-6] == 'T' && d[end-5] == 'P' && d[end-4] == '/'
	vapi.Assert(!needMore, "isHttp: asked for more although the request line is complete")
	iff(matched, wf, "isHttp")
}

// ---- not ---------------------------------------------------------------------------------------------------------------------
func VH_not() {
	d := vapi.Bytes("D", 4)
	mk := func() *env.At { return &env.At{N: vapi.Int("N", 0, 3), K: vapi.Uint8("K"), V0: vapi.Bool("V0")} }
	a, b, c := mk(), mk(), mk()
	m := &layer4.MatchNot{MatcherSets: []layer4.MatcherSet{{a, b}, {c}}}
	cx, _ := env.MatchingConn(d, false)
	layer4.VerifFreeze(cx)
	ok, err := m.Match(cx)
	layer4.VerifUnfreeze(cx)
	s1 := env.SetRef([]*env.At{a, b}, d, 0, len(d))
	s2 := env.SetRef([]*env.At{c}, d, 0, len(d))
	switch {
	case s1 == 2 || (s1 == 1 && s2 == 2):
		vapi.Cover("violating")
		vapi.Assert(!ok && err == nil, "not: matched although an inner set matches")
	case s1 == 1 && s2 == 1:
		vapi.Cover("well-formed")
		vapi.Assert(ok && err == nil, "not: did not match although no inner set matches")
	default:
		vapi.Cover("undecided")
		vapi.Assert(!ok && err != nil, "not: decided although an inner set needs more data")
	}
}

// ---- remote_ip / local_ip (address families, CIDR boundaries) ------------------------------------------------------------------
type addrConn struct {
	env.NoReadConn
	remote, local net.Addr
}

func (c *addrConn) RemoteAddr() net.Addr { return c.remote }
func (c *addrConn) LocalAddr() net.Addr  { return c.local }

func VH_ip() {
	type tc struct {
		ip   net.IP
		want bool
	}
	cases := []tc{
		{net.IP{10, 255, 255, 255}, true}, {net.IP{11, 0, 0, 0}, false}, {net.IP{9, 255, 255, 255}, false},
		{net.IP{192, 168, 1, 7}, true}, {net.IP{192, 168, 1, 8}, false},
		{net.ParseIP("2001:db8::1"), true}, {net.ParseIP("2001:db9::1"), false},
		{net.ParseIP("::ffff:10.1.2.3"), true}, // a v4-mapped address is reported by net.TCPAddr as plain IPv4
	}
	c := cases[vapi.Choice("addr", len(cases))]
	ranges := []string{"10.0.0.0/8", "192.168.1.7", "2001:db8::/32"}
	conn := &addrConn{remote: &net.TCPAddr{IP: c.ip, Port: 4000}, local: &net.TCPAddr{IP: c.ip, Port: 443}}
	cx := layer4.WrapConnection(conn, nil, nil)
	r := &layer4.MatchRemoteIP{Ranges: ranges}
	vapi.Assert(r.Provision(caddy.Context{}) == nil, "provision")
	ok, err := r.Match(cx)
	iff(ok && err == nil, c.want, "remote_ip")
	l := &layer4.MatchLocalIP{Ranges: ranges}
	vapi.Assert(l.Provision(caddy.Context{}) == nil, "provision")
	ok, err = l.Match(cx)
	iff(ok && err == nil, c.want, "local_ip")
}

// ---- clock -------------------------------------------------------------------------------------------------------------------------
func VH_clock() {
	type cfg struct {
		after, before, tz string
		lo, hi, off       int // reference window [lo,hi) in seconds of day, zone offset east of UTC
	}
	cfgs := []cfg{
		{"08:00:00", "17:30:00", "", 8 * 3600, 17*3600 + 1800, 0},
		{"22:00:00", "00:00:00", "", 22 * 3600, 86400, 0},
		{"17:00:00", "09:00:00", "+05:30", 9 * 3600, 17 * 3600, 5*3600 + 1800}, // swapped
		{"00:00:00", "00:00:00", "-03", 0, 86400, -3 * 3600},
	}
	c := cfgs[vapi.Choice("cfg", len(cfgs))]
	m := &l4clock.MatchClock{After: c.after, Before: c.before, Timezone: c.tz}
	vapi.Assert(m.Provision(caddy.Context{}) == nil, "provision")
	s := vapi.Int("second-of-day-utc", 0, 86399)
	const day0 = 1704067200 // 2024-01-01T00:00:00Z
	cx, _ := env.MatchingConn(nil, false)
	repl := cx.Context.Value(layer4.ReplacerCtxKey).(*caddy.Replacer)
	repl.Set("l4.conn.wrap_time", time.Unix(int64(day0+s), 0).UTC())
	ok, err := m.Match(cx)
	local := (s + c.off + 86400) % 86400
	iff(ok && err == nil, local >= c.lo && local < c.hi, "clock")
}

// ---- DNS allow/deny rule combination (wire parsing by miekg/dns is replaced) ------------------------------------------------------------
var errUnpack = dns.ErrBuf
var qclass, qtype uint16
var qbad bool

//verif:replace! (*github.com/miekg/dns.Msg).Unpack
func Repl_dnsUnpack(m *dns.Msg, b []byte) error {
	name := "good.example.com."
	if qbad {
		name = "bad.example.com."
	}
	m.Question = []dns.Question{{Name: name, Qtype: qtype, Qclass: qclass}}
	return nil
}

var wireLen int

//verif:replace! (*github.com/miekg/dns.Msg).Len
func Repl_dnsLen(m *dns.Msg) int { return wireLen }

// Under the engine the wire form is opaque (the parser is replaced by the
// scripted question above); the native twin packs and parses a real query.
//
//verif:replace! (*github.com/miekg/dns.Msg).Pack
func Repl_dnsPack(m *dns.Msg) ([]byte, error) { return make([]byte, 29), nil }

func VH_dns_rules() {
	qclass = []uint16{dns.ClassINET, dns.ClassCHAOS, 77}[vapi.Choice("class", 3)]
	qtype = []uint16{dns.TypeA, dns.TypeTXT, dns.TypeMX, 65000}[vapi.Choice("type", 4)]
	qbad = vapi.Bool("badname")
	type cfg struct {
		allow, deny              l4dns.MatchDNSRules
		defaultDeny, preferAllow bool
	}
	allowA := &l4dns.MatchDNSRule{ClassRegexp: "^IN$", Type: "A"}
	allowTXT := &l4dns.MatchDNSRule{Class: "IN", TypeRegexp: "^(TXT|MX)$"}
	denyBad := &l4dns.MatchDNSRule{Name: "bad.example.com."}
	cfgs := []cfg{
		{nil, nil, false, false},
		{l4dns.MatchDNSRules{allowA}, nil, false, false},
		{nil, l4dns.MatchDNSRules{denyBad}, false, false},
		{l4dns.MatchDNSRules{allowA, allowTXT}, l4dns.MatchDNSRules{denyBad}, true, false},
		{l4dns.MatchDNSRules{allowA}, l4dns.MatchDNSRules{denyBad}, false, true},
	}
	ci := vapi.Choice("cfg", len(cfgs))
	c := cfgs[ci]
	m := &l4dns.MatchDNS{Allow: c.allow, Deny: c.deny, DefaultDeny: c.defaultDeny, PreferAllow: c.preferAllow}
	vapi.Assert(m.Provision(caddy.Context{}) == nil, "provision")
	qname := "good.example.com."
	if qbad {
		qname = "bad.example.com."
	}
	q := &dns.Msg{Question: []dns.Question{{Name: qname, Qtype: qtype, Qclass: qclass}}}
	q.Id = 4660
	d, perr := q.Pack()
	vapi.Assert(perr == nil, "packing the query failed")
	wireLen = len(d)
	cx, _ := env.MatchingConn(d, true)
	layer4.VerifFreeze(cx)
	ok, err := m.Match(cx)
	layer4.VerifUnfreeze(cx)
	matched := ok && err == nil
	// reference decision table
	classIN, classKnown := qclass == dns.ClassINET, qclass == dns.ClassINET || qclass == dns.ClassCHAOS
	typeKnown := qtype != 65000
	allowedA := classIN && qtype == dns.TypeA
	allowedTXT := classIN && (qtype == dns.TypeTXT || qtype == dns.TypeMX)
	var allowed, denied bool
	switch ci {
	case 1, 4:
		allowed = allowedA
	case 3:
		allowed = allowedA || allowedTXT
	}
	if ci >= 2 {
		denied = qbad
	}
	var want bool
	switch {
	case ci == 0:
		want = true // no rules: every valid request matches
	case !classKnown || !typeKnown:
		want = false
	case len(c.allow) == 0:
		want = !denied
	case len(c.deny) == 0:
		want = allowed
	case denied && allowed:
		want = c.preferAllow
	case denied:
		want = false
	case allowed:
		want = true
	default:
		want = !c.defaultDeny
	}
	iff(matched, want, "dns rules")
}

// ---- Winbox auth message (single chunk): [len][06] user 00 key[32] parity ------------------------------
func alnum(c byte) bool {
	return (c >= '0' && c <= '9') || (c >= 'A' && c <= 'Z') || (c >= 'a' && c <= 'z')
}
func userChar(c byte) bool {
	return alnum(c) || c == '-' || c == '#' || c == '.' || c == '@' || c == '_'
}

func winbox(m *l4winbox.MatchWinbox, wantRomon int, wantUser string, what string) {
	u := 1 + vapi.Choice("userlen", 5) // total user field length incl. a possible "+r"
	d := vapi.BytesN("D", 2+u+1+32+1)
	// the user field contains no NUL, the delimiter follows it
	for i := 0; i < u; i++ {
		vapi.Assume(d[2+i] != 0)
	}
	matched := run(m, d, false)
	romon := u >= 3 && d[2+u-2] == '+' && d[2+u-1] == 'r'
	nameLen := u
	if romon {
		nameLen = u - 2
	}
	okName := alnum(d[2]) && alnum(d[2+nameLen-1])
	for i := 1; i+1 < nameLen; i++ {
		okName = vapi.And(okName, userChar(d[2+i]))
	}
	framed := int(d[0]) == len(d)-2 && d[1] == 6 && d[2+u] == 0
	parityOK := d[len(d)-1] <= 1
	modeOK := wantRomon < 0 || (wantRomon == 1) == romon
	userOK := true
	if wantUser != "" {
		userOK = nameLen == len(wantUser)
		for i := 0; i < len(wantUser) && i < nameLen; i++ {
			userOK = vapi.And(userOK, d[2+i] == wantUser[i])
		}
	}
	iff(matched, framed && parityOK && okName && modeOK && userOK, what)
}

func VH_winbox() { winbox(&l4winbox.MatchWinbox{}, -1, "", "winbox") }
func VH_winbox_romon() {
	winbox(&l4winbox.MatchWinbox{Modes: []string{"romon"}}, 1, "", "winbox romon only")
}
func VH_winbox_user() {
	winbox(&l4winbox.MatchWinbox{Modes: []string{"standard"}, Username: "ab"}, 0, "ab", "winbox with user name")
}

// ---- OpenVPN plain mode (P_CONTROL_HARD_RESET_CLIENT_V2, no tls-auth) ---------------------------------------
func ovpnPlain(udp bool) {
	m := &l4openvpn.MatchOpenVPN{Modes: []string{"plain"}}
	d := vapi.Bytes("D", 18)
	matched := run(m, d, udp)
	body := d
	lenOK := true
	if !udp {
		lenOK = len(d) >= 2 && int(d[0])<<8|int(d[1]) == len(d)-2
		if len(d) >= 2 {
			body = d[2:]
		}
	}
	wf := false
	if lenOK && len(body) == 14 {
		sid := false
		for i := 1; i <= 8; i++ {
			sid = vapi.Or(sid, body[i] != 0)
		}
		// opcode 7 in the high 5 bits, key id 0; session id non-zero; no acks; packet id 0
		wf = body[0] == 7<<3 && sid && body[9] == 0 && body[10] == 0 && body[11] == 0 && body[12] == 0 && body[13] == 0
	}
	iff(matched, wf, "openvpn plain")
}

// OpenVPN tls-auth client hard reset (no key configured, so the HMAC is not verified):
// opcode 7 / key 0, session id != 0, an HMAC whose length is a supported digest size,
// replay packet id 1, a net_time within +-15 s of now unless ignored, no acks, packet id 0.
func ovpnAuth(udp bool, ignoreTS bool) {
	m := &l4openvpn.MatchOpenVPN{Modes: []string{"auth"}, IgnoreTimestamp: ignoreTS}
	d := vapi.Bytes("D", 2+22+64+1)
	now := time.Now()
	sec, ns := now.Unix(), now.Nanosecond()
	matched := run(m, d, udp)
	body := d
	lenOK := true
	if !udp {
		lenOK = len(d) >= 2 && int(d[0])<<8|int(d[1]) == len(d)-2
		if len(d) >= 2 {
			body = d[2:]
		}
	}
	wf := false
	h := len(body) - 22
	if lenOK && h >= 16 && h <= 64 {
		size := false
		for _, sz := range l4openvpn.AuthDigestSizes {
			size = vapi.Or(size, h == sz)
		}
		sid := false
		for i := 1; i <= 8; i++ {
			sid = vapi.Or(sid, body[i] != 0)
		}
		o := 9 + h
		pid := uint32(body[o])<<24 | uint32(body[o+1])<<16 | uint32(body[o+2])<<8 | uint32(body[o+3])
		ts := int64(uint32(body[o+4])<<24 | uint32(body[o+5])<<16 | uint32(body[o+6])<<8 | uint32(body[o+7]))
		tsOK := ignoreTS || (ts > sec-15 && (ts < sec+15 || (ts == sec+15 && ns > 0)))
		tail := body[o+8] == 0 && body[o+9] == 0 && body[o+10] == 0 && body[o+11] == 0 && body[o+12] == 0
		wf = body[0] == 7<<3 && size && sid && pid == 1 && tsOK && tail
	}
	iff(matched, wf, "openvpn tls-auth")
}
func VH_openvpn_auth_tcp()    { ovpnAuth(false, true) }
func VH_openvpn_auth_udp()    { ovpnAuth(true, true) }
func VH_openvpn_auth_ts_udp() { ovpnAuth(true, false) }

func VH_openvpn_plain_tcp() { ovpnPlain(false) }
func VH_openvpn_plain_udp() { ovpnPlain(true) }

// ---- RDP connection request carrying only an rdpNegReq (MS-RDPBCGR 2.2.1.1) -------------------------------------
func VH_rdp_negreq() {
	d := vapi.BytesN("D", 19)
	for i := 11; i < 19; i++ {
		vapi.Assume(d[i] != '\r') // no cookie / token line
	}
	matched := run(&l4rdp.MatchRDP{}, d, false)
	tpkt := d[0] == 3 && d[1] == 0 && d[2] == 0 && d[3] == 19
	x224 := d[4] == 14 && d[5] == 0xE0 && d[6] == 0 && d[7] == 0 && d[8] == 0 && d[9] == 0 && d[10] == 0
	flags := d[12]
	proto := uint32(d[15]) | uint32(d[16])<<8 | uint32(d[17])<<16 | uint32(d[18])<<24
	neg := d[11] == 1 && flags&^0x0B == 0 && d[13] == 8 && d[14] == 0 && proto&^0x1F == 0 &&
		!(proto&8 != 0 && proto&2 == 0) && !(proto&2 != 0 && proto&1 == 0)
	corr := flags&8 != 0 // correlation info announced but absent: not a well-formed request
	iff(matched, tpkt && x224 && neg && !corr, "rdp negotiation request")
}

// RDP connection request with rdpNegReq + rdpCorrelationInfo (MS-RDPBCGR 2.2.1.1.1/2.2.1.1.2):
// type 6, flags 0, length 36, a 16-byte id whose first byte is neither 0x00 nor 0xF4 and
// which holds no 0x0D, 16 reserved zero bytes.
func VH_rdp_corrinfo() {
	d := vapi.BytesN("D", 55)
	for i := 11; i < 55; i++ {
		if i != 23 && i != 28 {
			// no cookie / token line; inside the id CR is the subject, at its first byte and at one
			// interior byte (every free CR position doubles the paths of the matcher's CR LF scan)
			vapi.Assume(d[i] != '\r')
		}
	}
	matched := run(&l4rdp.MatchRDP{}, d, false)
	tpkt := d[0] == 3 && d[1] == 0 && d[2] == 0 && d[3] == 55
	x224 := d[4] == 50 && d[5] == 0xE0 && d[6] == 0 && d[7] == 0 && d[8] == 0 && d[9] == 0 && d[10] == 0
	flags := d[12]
	proto := uint32(d[15]) | uint32(d[16])<<8 | uint32(d[17])<<16 | uint32(d[18])<<24
	neg := d[11] == 1 && flags&^0x0B == 0 && flags&8 != 0 && d[13] == 8 && d[14] == 0 && proto&^0x1F == 0 &&
		!(proto&8 != 0 && proto&2 == 0) && !(proto&2 != 0 && proto&1 == 0)
	corr := d[19] == 6 && d[20] == 0 && d[21] == 36 && d[22] == 0 && d[23] != 0 && d[23] != 0xF4
	for i := 23; i < 39; i++ {
		corr = vapi.And(corr, d[i] != '\r')
	}
	for i := 39; i < 55; i++ {
		corr = vapi.And(corr, d[i] == 0)
	}
	iff(matched, tpkt && x224 && neg && corr, "rdp request with correlation info")
}

func VH_socks5_unsorted() {
	socks5(&l4socks.Socks5Matcher{AuthMethods: []uint16{128, 2, 0}}, func(b byte) bool { return b == 0 || b == 2 || b == 128 }, "socks5 with unsorted auth_methods")
}

func init() {
	for name, f := range map[string]func(){
		"VH_openvpn_auth_tcp": VH_openvpn_auth_tcp, "VH_openvpn_auth_udp": VH_openvpn_auth_udp, "VH_openvpn_auth_ts_udp": VH_openvpn_auth_ts_udp,
		"VH_rdp_corrinfo": VH_rdp_corrinfo, "VH_socks5_unsorted": VH_socks5_unsorted,
		"VH_winbox": VH_winbox, "VH_winbox_romon": VH_winbox_romon, "VH_winbox_user": VH_winbox_user,
		"VH_openvpn_plain_tcp": VH_openvpn_plain_tcp, "VH_openvpn_plain_udp": VH_openvpn_plain_udp, "VH_rdp_negreq": VH_rdp_negreq,
		"VH_ssh": VH_ssh, "VH_xmpp": VH_xmpp, "VH_proxyproto": VH_proxyproto, "VH_socks4": VH_socks4, "VH_socks4_filter": VH_socks4_filter,
		"VH_socks5": VH_socks5, "VH_socks5_filter": VH_socks5_filter, "VH_regexp": VH_regexp, "VH_wireguard": VH_wireguard,
		"VH_wireguard_zero": VH_wireguard_zero, "VH_postgres": VH_postgres, "VH_ishttp": VH_ishttp, "VH_not": VH_not, "VH_ip": VH_ip,
		"VH_clock": VH_clock, "VH_dns_rules": VH_dns_rules,
	} {
		vapi.Register("c14."+name, f)
	}
}
