// Package c11: the proxy handler - upstream health, failure windows, retries and
// limits (C11), byte-exact relaying with half-close and clean-up (C03) and the
// PROXY header sent to upstreams (C12). The real Handler.Handle / dialPeers /
// proxy / countFailure / tryAgain / doActiveHealthCheck run in the engine's
// goroutine mode on the virtual clock; net.Dial is an environment stub that
// hands out scripted upstream connections.
package c11

import (
	"errors"
	"github.com/caddyserver/caddy/v2"
	"io"
	"net"
	"time"

	"github.com/mholt/caddy-l4/layer4"
	"github.com/mholt/caddy-l4/modules/l4proxy"
	"github.com/mholt/caddy-l4/modules/l4throttle"
	"go.uber.org/zap"

	"verifharness/env"
	"verifharness/vapi"
)

// ---- scripted upstream --------------------------------------------------------------------

type upConn struct {
	id        int
	payload   []byte // what the upstream sends to the client
	rpos      int
	maxChunks int
	got       []byte // what the upstream received
	closeW    int    // CloseWrite calls
	closed    int
	gotAtCW   int // bytes received when CloseWrite came
	onRead    func()
	noHalf    bool
	failWrite bool // the upstream resets the connection at the first write
}

func (u *upConn) Read(p []byte) (int, error) {
	if u.onRead != nil {
		f := u.onRead
		u.onRead = nil
		f()
	}
	if u.closed > 0 {
		return 0, net.ErrClosed
	}
	if u.rpos >= len(u.payload) {
		return 0, io.EOF
	}
	n := vapi.Int("upseg", 1, vapi.Min(len(p), len(u.payload)-u.rpos))
	copy(p[:n], u.payload[u.rpos:u.rpos+n])
	u.rpos += n
	return n, nil
}
func (u *upConn) Write(p []byte) (int, error) {
	if u.closed > 0 || u.closeW > 0 {
		return 0, net.ErrClosed
	}
	if u.failWrite {
		return 0, errReset
	}
	u.got = append(u.got, p...)
	return len(p), nil
}
func (u *upConn) Close() error      { u.closed++; return nil }
func (u *upConn) CloseWrite() error { u.closeW++; u.gotAtCW = len(u.got); return nil }
func (u *upConn) LocalAddr() net.Addr {
	return &net.TCPAddr{IP: net.IP{10, 9, 9, 9}, Port: 5000 + u.id}
}
func (u *upConn) RemoteAddr() net.Addr {
	return &net.TCPAddr{IP: net.IP{10, 0, 0, byte(1 + u.id)}, Port: 80}
}
func (u *upConn) SetDeadline(t time.Time) error      { return nil }
func (u *upConn) SetReadDeadline(t time.Time) error  { return nil }
func (u *upConn) SetWriteDeadline(t time.Time) error { return nil }

// ---- dial environment --------------------------------------------------------------------------

var (
	dials     []string         // addresses dialled, in order
	dialTimes []int64          // virtual instants of the dials
	dialFail  func(i int) bool // does dial number i fail?
	mkUp      func(i int) *upConn
	ups       []*upConn
	errDial   = errors.New("dial tcp: connection refused")
	errReset  = errors.New("write: connection reset by peer")
	dialErrs  []error // the error of every failed dial, in order (each one distinct)
)

func resetEnv() {
	dials, dialTimes, ups, dialErrs = nil, nil, nil, nil
	dialFail = func(int) bool { return false }
	mkUp = func(i int) *upConn { return &upConn{id: i} }
}

//verif:replace net.Dial
func Repl_Dial(network, address string) (net.Conn, error) {
	i := len(dials)
	dials = append(dials, address)
	dialTimes = append(dialTimes, vapi.Elapsed())
	if dialFail(i) {
		e := errors.New("dial tcp " + address + ": connection refused")
		dialErrs = append(dialErrs, e)
		return nil, e
	}
	u := mkUp(len(ups))
	ups = append(ups, u)
	return u, nil
}

//verif:replace net.DialTimeout
func Repl_DialTimeout(network, address string, d time.Duration) (net.Conn, error) {
	return Repl_Dial(network, address)
}

func mkUpstream(i int, maxConns int, npeers int) *l4proxy.Upstream {
	var st []l4proxy.VerifPeerState
	for k := 0; k < npeers; k++ {
		st = append(st, l4proxy.VerifPeerState{})
	}
	u := l4proxy.VerifUpstream([]string{[]string{"10.0.0.1:80", "10.0.0.2:80", "10.0.0.3:80"}[i]}, maxConns, -1, st)
	for k := 0; k < npeers; k++ {
		l4proxy.VerifSetAddr(u, k, "tcp", []string{"10.0.0.1", "10.0.0.2", "10.0.0.3"}[i], uint(80+k))
	}
	return u
}

func clientConn(d []byte) (*layer4.Connection, *env.SymConn) {
	c := &env.SymConn{D: d, MaxReads: vapi.Param("ROUNDS", 3)}
	return layer4.WrapConnection(c, nil, zap.NewNop()), c
}

// ---- C11 (a): max_connections ---------------------------------------------------------------------

// VH_maxconn: an upstream with max_connections = 1 that carries one proxied
// connection is not given another one until the first ends; afterwards the
// count is back.
func VH_maxconn() {
	resetEnv()
	u := mkUpstream(0, 1, 1)
	pool := l4proxy.UpstreamPool{u}
	sel := &l4proxy.FirstSelection{}
	h := l4proxy.VerifNewHandler(pool, sel, 0, 0, nil, 0)
	probed := false
	mkUp = func(i int) *upConn {
		return &upConn{id: i, payload: vapi.Bytes("up", 4), onRead: func() {
			// while the first connection is being proxied: would a second one get this upstream?
			probed = true
			cx2, _ := clientConn(nil)
			got := sel.Select(pool, cx2)
			vapi.Assert(got == nil, "an upstream that has reached max_connections was given another connection")
		}}
	}
	cx, _ := clientConn(vapi.Bytes("D", 4))
	err := h.Handle(cx, nil)
	vapi.Assert(err == nil, "proxying failed")
	vapi.Assert(probed, "the probe did not run")
	vapi.Cover("probed while proxying")
	cx3, _ := clientConn(nil)
	vapi.Assert(sel.Select(pool, cx3) == u, "the upstream is still counted as full after its connection ended")
	vapi.Assert(l4proxy.VerifPeerState_(u, 0).NumConns == 0, "connection count did not return to zero")
}

// VH_limits: the real Upstream.provision with every combination of the upstream's own
// max_connections and the handler-wide unhealthy_connection_count; the limit in force
// is the upstream's own one when set, else the handler-wide default, else none; full()
// follows the peer's connection count.
func VH_limits() {
	resetEnv()
	m := vapi.Int("max_connections", 0, 3)
	n := vapi.Int("unhealthy_connection_count", 0, 3)
	u := &l4proxy.Upstream{Dial: []string{"10.0.0.5:80"}, MaxConnections: m}
	var passive *l4proxy.PassiveHealthChecks
	if vapi.Choice("passive configured", 2) == 1 {
		passive = &l4proxy.PassiveHealthChecks{UnhealthyConnectionCount: n}
	} else {
		n = 0
	}
	_, err := l4proxy.VerifProvisionUpstream(u, passive)
	vapi.Assert(err == nil, "provision failed")
	limit := m
	if limit == 0 {
		limit = n
	}
	conns := vapi.Int("numconns", 0, 4)
	l4proxy.VerifSetPeer(u, 0, l4proxy.VerifPeerState{NumConns: int32(conns)})
	full := l4proxy.VerifFull(u)
	vapi.Cover("limits provisioned")
	vapi.Assert(full == (limit > 0 && conns >= limit), "an upstream is full exactly when its open connections have reached max_connections (or, without one, unhealthy_connection_count)")
}

// ---- C11 (b): active health check -------------------------------------------------------------------

func VH_active() {
	resetEnv()
	u := mkUpstream(0, 0, 1)
	h := l4proxy.VerifNewHandler(l4proxy.UpstreamPool{u}, &l4proxy.FirstSelection{}, 0, 0, nil, 0)
	before := l4proxy.VerifPeerState{Unhealthy: int32(vapi.Int("unhealthy", 0, 1)), NumConns: int32(vapi.Int("numconns", 0, 2))}
	l4proxy.VerifSetPeer(u, 0, before)
	refused := vapi.Bool("refused")
	dialFail = func(int) bool { return refused }
	vapi.Assert(l4proxy.VerifActiveCheck(h, u, 0, time.Second) == nil, "active check returned an error")
	vapi.Cover("checked")
	vapi.Assert((l4proxy.VerifPeerState_(u, 0).Unhealthy != 0) == refused, "active check: peer must be down iff it refuses connections")
	vapi.Assert(l4proxy.VerifHealthy(u) == !refused, "healthy() does not follow the active check")
	if len(ups) > 0 {
		vapi.Assert(ups[0].closed == 1, "health-check connection not closed")
	}
}

// ---- C11 (d): passive failure window ----------------------------------------------------------------

// VH_failwindow: the upstream is out of rotation exactly while the failures of
// the last fail_duration number at least max_fails.
func VH_failwindow() {
	resetEnv()
	u := mkUpstream(0, 0, 1)
	failDur := 10 * time.Second
	maxFails := 1 + vapi.Choice("maxfails", 2)
	passive := &l4proxy.PassiveHealthChecks{FailDuration: 10_000_000_000, MaxFails: maxFails}
	h := l4proxy.VerifNewHandler(l4proxy.UpstreamPool{u}, &l4proxy.FirstSelection{}, 0, 0, passive, 0)
	// up to 3 failures at chosen instants, then a query instant
	var at []int64
	n := 1 + vapi.Choice("nfail", 3)
	gaps := []time.Duration{0, 3 * time.Second, 7 * time.Second, 11 * time.Second}
	for i := 0; i < n; i++ {
		vapi.Advance(gaps[vapi.Choice("gap", len(gaps))])
		at = append(at, vapi.Elapsed())
		l4proxy.VerifCountFailure(h, u, 0)
	}
	vapi.Advance(gaps[vapi.Choice("query-gap", len(gaps))] + time.Second)
	now := vapi.Elapsed()
	recent := 0
	for _, t := range at {
		if now-t < int64(failDur) {
			recent++
		}
	}
	vapi.Cover("queried")
	if recent >= maxFails {
		vapi.Cover("out of rotation")
	}
	vapi.Assert(l4proxy.VerifHealthy(u) == (recent < maxFails), "upstream must be out of rotation exactly while the failures remembered from the last fail_duration number at least max_fails")
	vapi.Assert(l4proxy.VerifPeerState_(u, 0).Fails >= 0, "failure count went negative")
	// once every failure has expired the count is zero again
	vapi.Advance(failDur + time.Second)
	vapi.Assert(l4proxy.VerifPeerState_(u, 0).Fails == 0, "failure count did not return to zero")
}

// ---- C11 (e): retries ---------------------------------------------------------------------------------------

// VH_retry: with every dial failing, Handle retries every try_interval until
// try_duration has elapsed and returns the last dial error; with try_duration
// 0 there is exactly one attempt.
func VH_retry() {
	resetEnv()
	u := mkUpstream(0, 0, 1)
	tryDur := []time.Duration{0, time.Second, 2500 * time.Millisecond}[vapi.Choice("try_duration", 3)]
	tryInt := 500 * time.Millisecond
	h := l4proxy.VerifNewHandler(l4proxy.UpstreamPool{u}, &l4proxy.FirstSelection{}, tryDur, tryInt, nil, 0)
	okAt := -1
	if vapi.Bool("recovers") {
		okAt = vapi.Int("ok-at", 0, 5)
	}
	dialFail = func(i int) bool { return okAt < 0 || i < okAt }
	cx, _ := clientConn(nil)
	t0 := vapi.Elapsed()
	err := h.Handle(cx, nil)
	el := time.Duration(vapi.Elapsed() - t0)
	for i := 1; i < len(dialTimes); i++ {
		vapi.Assert(time.Duration(dialTimes[i]-dialTimes[i-1]) >= tryInt, "a retry came sooner than try_interval")
		vapi.Assert(time.Duration(dialTimes[i-1]-t0) < tryDur, "a retry was made although try_duration had elapsed")
	}
	if len(ups) == 0 {
		vapi.Cover("gave up")
		vapi.Assert(len(dialErrs) > 0 && err == dialErrs[len(dialErrs)-1], "Handle must fail with the last dial error")
		vapi.Assert(el >= tryDur, "gave up before try_duration had elapsed")
		if tryDur == 0 {
			vapi.Assert(len(dials) == 1, "try_duration 0 means exactly one attempt")
		}
	} else {
		vapi.Cover("connected after retries")
		vapi.Assert(err == nil, "proxying failed after a successful dial")
		vapi.Assert(ups[0].closed >= 1, "upstream connection not closed")
	}
	// whatever happened, nothing is open any more: no connection may stay counted
	vapi.Assert(l4proxy.VerifPeerState_(u, 0).NumConns == 0, "a connection is still counted on the upstream after Handle returned")
}

// VH_retry_multi: an upstream with two peers whose second peer refuses for the first
// attempts: every connection opened in an abandoned attempt has been closed when Handle
// returns, nothing stays counted.
func VH_retry_multi() {
	resetEnv()
	u := mkUpstream(0, 0, 2)
	h := l4proxy.VerifNewHandler(l4proxy.UpstreamPool{u}, &l4proxy.FirstSelection{}, 2500*time.Millisecond, 500*time.Millisecond, nil, 0)
	badAttempts := vapi.Int("failing attempts", 0, 3)
	// dial 2k is peer 0 of attempt k (connects), dial 2k+1 is peer 1 (refuses during the first badAttempts attempts)
	dialFail = func(i int) bool { return i%2 == 1 && i/2 < badAttempts }
	cx, _ := clientConn(nil)
	err := h.Handle(cx, nil)
	vapi.Assert(err == nil, "proxying failed although the peers accepted in the end")
	vapi.Cover("proxied after abandoned attempts")
	if badAttempts > 0 {
		vapi.Cover("attempts were abandoned")
	}
	for _, up := range ups {
		vapi.Assert(up.closed >= 1, "an upstream connection opened in an abandoned attempt was never closed")
	}
	for i := 0; i < 2; i++ {
		vapi.Assert(l4proxy.VerifPeerState_(u, i).NumConns == 0, "a connection is still counted on a peer after Handle returned")
	}
}

// ---- C03: relaying ----------------------------------------------------------------------------------------------

// halfConn is a client that supports half-close.
type halfConn struct {
	*env.SymConn
	cw  int
	wAt int
}

func (c *halfConn) CloseWrite() error { c.cw++; c.wAt = len(c.Written); return nil }

// VH_relay: every client byte from the first unconsumed one reaches each peer
// exactly once and in order, every upstream byte reaches the client in order,
// half-closes are propagated after the last byte, the handler returns and
// every upstream connection is closed.
func VH_relay() {
	resetEnv()
	npeers := 1 + vapi.Choice("npeers", vapi.Param("PEERS", 2))
	u := mkUpstream(0, 0, npeers)
	h := l4proxy.VerifNewHandler(l4proxy.UpstreamPool{u}, &l4proxy.FirstSelection{}, 0, 0, nil, 0)
	mkUp = func(i int) *upConn { return &upConn{id: i, payload: vapi.Bytes("up", vapi.Param("UPL", 3))} }
	B := vapi.Bytes("B", vapi.Param("BL", 3)) // prefetched during matching, still unread
	D := vapi.Bytes("D", vapi.Param("DL", 3))
	sc := &env.SymConn{D: D, MaxReads: vapi.Param("ROUNDS", 3), EOFWithData: vapi.Param("EOFDATA", 0) == 1 && vapi.Bool("eof-with-data")}
	hc := &halfConn{SymConn: sc}
	cx := layer4.WrapConnection(hc, nil, zap.NewNop())
	// the matching buffer is a pooled one, as in Server.handle, which gives it back when the handler returns
	pooled := layer4.VerifBufPoolGet()
	buf := append(pooled[:0], B...)
	layer4.VerifSetState(cx, buf, 0, 0, false)
	err := h.Handle(cx, nil)
	layer4.VerifBufPoolPut(pooled)
	vapi.Assert(err == nil, "Handle failed")
	vapi.Cover("relayed")
	want := append(append(make([]byte, 0, 16), B...), D...)
	for _, up := range ups {
		vapi.AssertBytesEqual(up.got, want, "an upstream did not receive the client's stream exactly once, in order, from the first unconsumed byte")
		vapi.Assert(up.closeW == 1 && up.gotAtCW == len(want), "client end-of-stream was not propagated to the upstream after the last byte")
		vapi.Assert(up.closed >= 1, "an upstream connection was left open")
	}
	vapi.Assert(len(ups) == npeers, "not every peer of the upstream was dialled")
	if npeers == 1 {
		vapi.AssertBytesEqual(sc.Written, ups[0].payload, "the client did not receive the upstream's bytes in order")
	} else {
		total := 0
		for _, up := range ups {
			total += len(up.payload)
		}
		vapi.Assert(len(sc.Written) == total, "bytes from the upstreams were lost or duplicated on the way to the client")
	}
	vapi.Assert(hc.cw == 1 && hc.wAt == len(sc.Written), "upstream end-of-stream was not propagated to the client after the last byte")
}

// VH_relay_wrapped: the same relay behind a handler that wraps the client connection
// (throttle without limits; proxy_protocol and tee wrap in the same way): the client's
// transport still offers half-close, so the upstream's end-of-stream must reach it.
func VH_relay_wrapped() {
	resetEnv()
	u := mkUpstream(0, 0, 1)
	h := l4proxy.VerifNewHandler(l4proxy.UpstreamPool{u}, &l4proxy.FirstSelection{}, 0, 0, nil, 0)
	mkUp = func(i int) *upConn { return &upConn{id: i, payload: vapi.Bytes("up", vapi.Param("UPL", 2))} }
	D := vapi.Bytes("D", vapi.Param("DL", 2))
	sc := &env.SymConn{D: D, MaxReads: 3}
	hc := &halfConn{SymConn: sc}
	cx := layer4.WrapConnection(hc, nil, zap.NewNop())
	var front layer4.NextHandler
	switch vapi.Choice("wrapping handler", 2) {
	case 0:
		th := &l4throttle.Handler{}
		vapi.Assert(th.Provision(caddy.Context{}) == nil, "provision")
		front = th
	case 1:
		front = plainWrapper{}
	}
	err := layer4.Handlers{front, h}.Compile().Handle(cx)
	vapi.Assert(err == nil, "Handle failed")
	vapi.Cover("relayed behind a wrapping handler")
	vapi.AssertBytesEqual(ups[0].got, D, "the upstream did not receive the client's stream")
	vapi.AssertBytesEqual(sc.Written, ups[0].payload, "the client did not receive the upstream's bytes in order")
	vapi.Assert(ups[0].closeW == 1, "client end-of-stream was not propagated to the upstream")
	vapi.Assert(hc.cw == 1 && hc.wAt == len(sc.Written), "upstream end-of-stream was not propagated to the client although its transport offers half-close")
}

// plainWrapper continues on cx.Wrap(cx) - a Connection whose underlying connection is
// the previous Connection (what the PROXY protocol and tee handlers produce).
type plainWrapper struct{}

func (plainWrapper) Handle(cx *layer4.Connection, next layer4.Handler) error {
	return next.Handle(cx.Wrap(cx))
}

// ---- C12 (sender side): PROXY header to upstreams -------------------------------------------------------------------

// VH_ppsend: with proxy_protocol v2 configured, each upstream receives exactly
// one header carrying the client's addresses, immediately followed by the stream.
func VH_ppsend() {
	resetEnv()
	ver := uint8(1 + vapi.Choice("version", 2))
	u := mkUpstream(0, 0, 1+vapi.Choice("npeers", vapi.Param("PEERS", 1)))
	h := l4proxy.VerifNewHandler(l4proxy.UpstreamPool{u}, &l4proxy.FirstSelection{}, 0, 0, nil, ver)
	D := vapi.Bytes("D", 2)
	sc := &env.SymConn{D: D, MaxReads: 3}
	ip := vapi.BytesN("ip", 4)
	port := int(vapi.Uint16("port"))
	if ver == 1 {
		// the v1 text header is formatted by library code (strconv/net.IP.String): concrete addresses only
		ip, port = []byte{192, 0, 2, 33}, 40123
	}
	sc.Remote = &net.TCPAddr{IP: net.IP(ip), Port: port}
	cx := layer4.WrapConnection(sc, nil, zap.NewNop())
	vapi.Assert(h.Handle(cx, nil) == nil, "Handle failed")
	vapi.Cover("header sent")
	for _, up := range ups {
		if ver == 2 {
			sig := "\r\n\r\n\x00\r\nQUIT\n"
			vapi.Assert(len(up.got) >= 28, "v2 header missing")
			for i := 0; i < 12; i++ {
				vapi.Assert(up.got[i] == sig[i], "v2 signature wrong")
			}
			vapi.Assert(up.got[12] == 0x21 && up.got[13] == 0x11 && up.got[14] == 0 && up.got[15] == 12, "v2 header: version/command, family/protocol or length wrong")
			vapi.AssertBytesEqual(up.got[16:20], ip, "v2 header does not carry the client's source address")
			vapi.Assert(up.got[20] == 10 && up.got[21] == 0 && up.got[22] == 0 && up.got[23] == 1, "v2 header does not carry the local address as destination")
			vapi.Assert(int(up.got[24])<<8|int(up.got[25]) == port, "v2 header does not carry the client's source port")
			vapi.AssertBytesEqual(up.got[28:], D, "the client's stream does not follow the header immediately")
		} else {
			exp := []byte("PROXY TCP4 192.0.2.33 10.0.0.1 40123 443\r\n")
			vapi.Assert(len(up.got) >= len(exp), "v1 header missing")
			vapi.AssertBytesEqual(up.got[:len(exp)], exp, "v1 header is not the one line the specification prescribes for these addresses")
			vapi.AssertBytesEqual(up.got[len(exp):], D, "the client's stream does not follow the header immediately")
		}
	}
}

// VH_ppsend_fail: an upstream accepts the connection and resets it when the PROXY
// header is written. Whatever Handle does then (fail, or retry), every upstream
// connection it opened has been closed when it returns.
func VH_ppsend_fail() {
	resetEnv()
	ver := uint8(1 + vapi.Choice("version", 2))
	np := 1 + vapi.Choice("npeers", 2)
	u := mkUpstream(0, 0, np)
	h := l4proxy.VerifNewHandler(l4proxy.UpstreamPool{u}, &l4proxy.FirstSelection{}, 0, 0, nil, ver)
	bad := vapi.Choice("resetting peer", np)
	mkUp = func(i int) *upConn { return &upConn{id: i, failWrite: i == bad} }
	sc := &env.SymConn{D: vapi.Bytes("D", 2), MaxReads: 3}
	sc.Remote = &net.TCPAddr{IP: net.IP{192, 0, 2, 33}, Port: 40123}
	cx := layer4.WrapConnection(sc, nil, zap.NewNop())
	err := h.Handle(cx, nil)
	vapi.Cover("header write failed")
	vapi.Assert(err != nil, "Handle reported success although the PROXY header could not be sent")
	for _, up := range ups {
		vapi.Assert(up.closed >= 1, "an upstream connection opened by Handle was left open after the PROXY header could not be written")
	}
}

func init() {
	for name, f := range map[string]func(){
		"VH_ppsend_fail": VH_ppsend_fail, "VH_relay_wrapped": VH_relay_wrapped, "VH_retry_multi": VH_retry_multi,
		"VH_maxconn": VH_maxconn, "VH_active": VH_active, "VH_failwindow": VH_failwindow, "VH_retry": VH_retry,
		"VH_relay": VH_relay, "VH_ppsend": VH_ppsend, "VH_limits": VH_limits,
	} {
		vapi.Register("c11."+name, f)
	}
}
