package c04

import (
	"net"
	"time"

	"github.com/mholt/caddy-l4/layer4"
	"github.com/mholt/caddy-l4/modules/l4postgres"
	"go.uber.org/zap"

	"verifharness/vapi"
)

// fakeConn is the underlying connection of a matching-mode Connection; Read must never be called during Match.
type fakeConn struct{ udp bool }

func (c *fakeConn) Read(p []byte) (int, error)  { vapi.Assert(false, "matcher read from the network"); return 0, nil }
func (c *fakeConn) Write(p []byte) (int, error) { return len(p), nil }
func (c *fakeConn) Close() error                { return nil }
func (c *fakeConn) LocalAddr() net.Addr {
	if c.udp {
		return &net.UDPAddr{IP: net.IP{10, 0, 0, 1}, Port: 53}
	}
	return &net.TCPAddr{IP: net.IP{10, 0, 0, 1}, Port: 443}
}
func (c *fakeConn) RemoteAddr() net.Addr {
	if c.udp {
		return &net.UDPAddr{IP: net.IP{10, 0, 0, 2}, Port: 40000}
	}
	return &net.TCPAddr{IP: net.IP{10, 0, 0, 2}, Port: 40000}
}
func (c *fakeConn) SetDeadline(t time.Time) error      { return nil }
func (c *fakeConn) SetReadDeadline(t time.Time) error  { return nil }
func (c *fakeConn) SetWriteDeadline(t time.Time) error { return nil }

func VH_postgres() {
	d := vapi.Bytes("D", vapi.Param("L", 16))
	cx := layer4.WrapConnection(&fakeConn{}, d, zap.NewNop())
	layer4.VerifFreeze(cx)
	m := &l4postgres.MatchPostgres{}
	ok, err := m.Match(cx)
	vapi.Log("verdict", ok, err)
}

func init() {
	vapi.Register("c04.VH_postgres", VH_postgres)
}
