// Package c04: no remote input makes a matcher panic or allocate without bound.
// Every harness runs a matcher's real Match on a Connection pre-loaded (matching
// mode) with a symbolic byte string of symbolic length. The engine's implicit
// checks (index, slice, nil, make-size, division) are the oracle.
package c04

import (
	"github.com/caddyserver/caddy/v2"

	"github.com/miekg/dns"

	"github.com/mholt/caddy-l4/layer4"
	"github.com/mholt/caddy-l4/modules/l4dns"
	"github.com/mholt/caddy-l4/modules/l4http"
	"github.com/mholt/caddy-l4/modules/l4openvpn"
	"github.com/mholt/caddy-l4/modules/l4postgres"
	"github.com/mholt/caddy-l4/modules/l4proxyprotocol"
	"github.com/mholt/caddy-l4/modules/l4quic"
	"github.com/mholt/caddy-l4/modules/l4rdp"
	"github.com/mholt/caddy-l4/modules/l4regexp"
	"github.com/mholt/caddy-l4/modules/l4socks"
	"github.com/mholt/caddy-l4/modules/l4ssh"
	"github.com/mholt/caddy-l4/modules/l4tls"
	"github.com/mholt/caddy-l4/modules/l4winbox"
	"github.com/mholt/caddy-l4/modules/l4wireguard"
	"github.com/mholt/caddy-l4/modules/l4xmpp"

	"verifharness/env"
	"verifharness/vapi"
)

type provisioner interface {
	Provision(caddy.Context) error
}

func run(m layer4.ConnMatcher, defLen int, udp bool) { runP(m, defLen, udp, true) }

func runP(m layer4.ConnMatcher, defLen int, udp bool, provision bool) {
	if p, ok := m.(provisioner); ok && provision {
		if err := p.Provision(caddy.Context{}); err != nil {
			vapi.Log("provision-error")
			return
		}
	}
	d := vapi.Bytes("D", vapi.Param("L", defLen))
	cx, _ := env.MatchingConn(d, udp)
	layer4.VerifFreeze(cx)
	ok, err := m.Match(cx)
	layer4.VerifUnfreeze(cx)
	vapi.Cover("match returned")
	vapi.Log("verdict", ok, env.ErrClass(err))
}

func VH_postgres() { run(&l4postgres.MatchPostgres{}, 16, false) }
func VH_ssh()      { run(&l4ssh.MatchSSH{}, 8, false) }
func VH_xmpp()     { run(&l4xmpp.MatchXMPP{}, 56, false) }
func VH_socks4()   { run(&l4socks.Socks4Matcher{}, 12, false) }
func VH_socks4_filter() {
	run(&l4socks.Socks4Matcher{Commands: []string{"BIND"}, Ports: []uint16{80, 443}, Networks: []string{"10.0.0.0/8", "192.168.1.7"}}, 12, false)
}
func VH_socks5()         { run(&l4socks.Socks5Matcher{}, 10, false) }
func VH_socks5_filter()  { run(&l4socks.Socks5Matcher{AuthMethods: []uint16{2, 128}}, 10, false) }
func VH_proxyproto()     { run(&l4proxyprotocol.MatchProxyProtocol{}, 16, false) }
func VH_regexp()         { run(&l4regexp.MatchRegexp{Pattern: "^[A-Z]+ /", Count: 6}, 8, false) }
func VH_regexp_default() { run(&l4regexp.MatchRegexp{Pattern: "^\\d\\d"}, 6, false) }
func VH_wireguard()      { run(&l4wireguard.MatchWireGuard{}, 150, true) }
func VH_wireguard_zero() { run(&l4wireguard.MatchWireGuard{Zero: 0xFF770000}, 150, true) }
func VH_winbox()         { run(&l4winbox.MatchWinbox{}, 42, false) }

// VH_winbox_big: lengths around the 255/257-byte chunk boundary.
func VH_winbox_big() {
	m := &l4winbox.MatchWinbox{}
	_ = m.Provision(caddy.Context{})
	d := vapi.Bytes("D", vapi.Param("L", 260))
	vapi.Assume(len(d) >= vapi.Param("LMIN", 255))
	cx, _ := env.MatchingConn(d, false)
	layer4.VerifFreeze(cx)
	ok, err := m.Match(cx)
	layer4.VerifUnfreeze(cx)
	vapi.Cover("match returned")
	vapi.Log("verdict", ok, env.ErrClass(err))
}

// VH_winbox_frombytes: the auth-message parser on inputs whose length is a
// multiple of the 257-byte chunk size (and its neighbours).
func VH_winbox_frombytes() {
	n := []int{256, 257, 258, 514}[vapi.Choice("len", 4)]
	d := vapi.BytesN("D", n)
	msg := &l4winbox.MessageAuth{}
	err := msg.FromBytes(d)
	vapi.Cover("match returned")
	vapi.Log("frombytes", err)
}

func VH_winbox_filter() {
	run(&l4winbox.MatchWinbox{Modes: []string{"romon"}, UsernameRegexp: "^adm"}, 42, false)
}
func VH_winbox_user() {
	run(&l4winbox.MatchWinbox{Modes: []string{"standard"}, Username: "ab"}, 42, false)
}
func VH_rdp() { run(&l4rdp.MatchRDP{}, 31, false) }

// VH_rdp_deep: payloads without CR (the CR LF scan forks per byte otherwise) long
// enough for the negotiation request and the correlation info.
func VH_rdp_deep() {
	m := &l4rdp.MatchRDP{}
	_ = m.Provision(caddy.Context{})
	d := vapi.Bytes("D", vapi.Param("L", 60))
	for i := 11; i < len(d); i++ {
		vapi.Assume(d[i] != '\r')
	}
	cx, _ := env.MatchingConn(d, false)
	layer4.VerifFreeze(cx)
	ok, err := m.Match(cx)
	layer4.VerifUnfreeze(cx)
	vapi.Cover("match returned")
	if ok {
		vapi.Cover("deep payload matched")
	}
	vapi.Log("verdict", ok, env.ErrClass(err))
}

func VH_rdp_filter() {
	run(&l4rdp.MatchRDP{CookieHash: "a", CustomInfoRegexp: "^x"}, 31, false)
}
func VH_rdp_token() {
	run(&l4rdp.MatchRDP{CookieIPs: []string{"127.0.0.1/8"}, CookiePorts: []uint16{3389}}, 31, false)
}

func VH_openvpn_tcp() { run(&l4openvpn.MatchOpenVPN{}, 90, false) }
func VH_openvpn_udp() { run(&l4openvpn.MatchOpenVPN{}, 88, true) }
func VH_openvpn_crypt2_tcp() {
	run(&l4openvpn.MatchOpenVPN{Modes: []string{"crypt2"}, IgnoreTimestamp: true}, 1082, false)
}
func VH_openvpn_crypt2_udp() { run(&l4openvpn.MatchOpenVPN{Modes: []string{"crypt2"}}, 1080, true) }
func VH_tls()                { runP(l4tls.VerifNewMatchTLS(), 5+52, false, false) }
func VH_quic_tcp()           { runP(&l4quic.MatchQUIC{}, 4, false, false) }
func VH_dns_tcp()            { run(&l4dns.MatchDNS{}, 16, false) }
func VH_dns_udp()            { run(&l4dns.MatchDNS{}, 16, true) }
func VH_dns_rules() {
	run(&l4dns.MatchDNS{Allow: l4dns.MatchDNSRules{&l4dns.MatchDNSRule{Type: "A"}}, Deny: l4dns.MatchDNSRules{&l4dns.MatchDNSRule{Name: "bad.example.com."}}, DefaultDeny: true}, 16, true)
}

// VH_dns_rules_both: rules that give both an exact value and a pattern for the same field.
func VH_dns_rules_both() {
	run(&l4dns.MatchDNS{Allow: l4dns.MatchDNSRules{&l4dns.MatchDNSRule{Name: "good.example.com.", NameRegexp: "^good", Type: "A", TypeRegexp: "^A+$", Class: "IN", ClassRegexp: "I"}},
		Deny: l4dns.MatchDNSRules{&l4dns.MatchDNSRule{Name: "bad.example.com.", NameRegexp: "example"}}}, 16, true)
}

// VH_http_ishttp drives the request-line heuristic directly (the rest of the
// HTTP matcher is net/http and outside the claim).
func VH_http_ishttp() {
	d := vapi.Bytes("D", vapi.Param("L", 24))
	needMore, matched := l4http.VerifIsHttp(d)
	vapi.Cover("match returned")
	vapi.Log("ishttp", needMore, matched)
}

// VH_http_match runs MatchHTTP.Match on inputs the heuristic does not accept
// (need-more / no-match paths, which never reach net/http).
func VH_http_match() {
	d := vapi.Bytes("D", vapi.Param("L", 24))
	_, matched := l4http.VerifIsHttp(d)
	vapi.Assume(!matched)
	cx, _ := env.MatchingConn(d, false)
	layer4.VerifFreeze(cx)
	ok, err := (&l4http.MatchHTTP{}).Match(cx)
	layer4.VerifUnfreeze(cx)
	vapi.Cover("match returned")
	vapi.Log("verdict", ok, env.ErrClass(err))
}

var errUnpack = dns.ErrBuf

// Havoc model of the third-party DNS parser (outside the claim): any result, no panic.
//
//verif:replace (*github.com/miekg/dns.Msg).Unpack
func Repl_dnsUnpack(m *dns.Msg, b []byte) error {
	if vapi.Bool("dns.unpack.err") {
		return errUnpack
	}
	m.Response = vapi.Bool("dns.response")
	m.Zero = vapi.Bool("dns.zero")
	m.Rcode = vapi.Int("dns.rcode", 0, 4095)
	nq := vapi.Int("dns.nq", 0, vapi.Param("NQ", 1))
	for i := 0; i < nq; i++ {
		name := "good.example.com."
		if vapi.Bool("dns.qname.bad") {
			name = "bad.example.com."
		}
		m.Question = append(m.Question, dns.Question{Name: name, Qtype: vapi.Uint16("dns.qtype"), Qclass: vapi.Uint16("dns.qclass")})
	}
	return nil
}

//verif:replace (*github.com/miekg/dns.Msg).Len
func Repl_dnsLen(m *dns.Msg) int { return vapi.Int("dns.len", 0, 65535) }

func init() {
	for name, f := range map[string]func(){
		"VH_dns_rules_both": VH_dns_rules_both, "VH_openvpn_tcp": VH_openvpn_tcp, "VH_openvpn_udp": VH_openvpn_udp, "VH_openvpn_crypt2_tcp": VH_openvpn_crypt2_tcp,
		"VH_openvpn_crypt2_udp": VH_openvpn_crypt2_udp, "VH_tls": VH_tls, "VH_quic_tcp": VH_quic_tcp, "VH_dns_tcp": VH_dns_tcp,
		"VH_dns_udp": VH_dns_udp, "VH_dns_rules": VH_dns_rules, "VH_http_ishttp": VH_http_ishttp, "VH_http_match": VH_http_match,
		"VH_postgres": VH_postgres, "VH_ssh": VH_ssh, "VH_xmpp": VH_xmpp, "VH_socks4": VH_socks4,
		"VH_socks4_filter": VH_socks4_filter, "VH_socks5": VH_socks5, "VH_socks5_filter": VH_socks5_filter,
		"VH_proxyproto": VH_proxyproto, "VH_regexp": VH_regexp, "VH_regexp_default": VH_regexp_default,
		"VH_wireguard": VH_wireguard, "VH_wireguard_zero": VH_wireguard_zero, "VH_winbox": VH_winbox, "VH_winbox_big": VH_winbox_big, "VH_winbox_frombytes": VH_winbox_frombytes,
		"VH_winbox_filter": VH_winbox_filter, "VH_winbox_user": VH_winbox_user, "VH_rdp": VH_rdp, "VH_rdp_deep": VH_rdp_deep,
		"VH_rdp_filter": VH_rdp_filter, "VH_rdp_token": VH_rdp_token,
	} {
		vapi.Register("c04."+name, f)
	}
}
