// Package c10: selection policies return an available upstream iff one exists, per contract.
package c10

import (
	"github.com/mholt/caddy-l4/layer4"
	"github.com/mholt/caddy-l4/modules/l4proxy"

	"verifharness/env"
	"verifharness/vapi"
)

// ups is the harness's own view of an upstream, used by the reference predicates.
type ups struct {
	maxConns int
	peers    []l4proxy.VerifPeerState
	u        *l4proxy.Upstream
}

const maxFailsAll = 2 // health-check policy: max_fails (0 disables the rule in one configuration below)

// availRef: healthy, below its failure limit and below its connection limit —
// written from the documentation of the health checks, not from upstream.go.
func availRef(x *ups, maxFails int) bool {
	for _, p := range x.peers {
		if p.Unhealthy != 0 {
			return false
		}
		if maxFails > 0 && int(p.Fails) >= maxFails {
			return false
		}
		if x.maxConns > 0 && int(p.NumConns) >= x.maxConns {
			return false
		}
	}
	return true
}

func totalRef(x *ups) int {
	t := 0
	for _, p := range x.peers {
		t += int(p.NumConns)
	}
	return t
}

var dials = []string{"10.0.0.1:80", "10.0.0.2:80", "10.0.0.3:80", "10.0.0.4:80", "10.0.0.5:80", "10.0.0.6:80", "10.0.0.7:80", "10.0.0.8:80"}

// mkPool builds a pool of n upstreams with symbolic peer state.
func mkPool(n int, maxFails int) ([]*ups, l4proxy.UpstreamPool) {
	var xs []*ups
	var pool l4proxy.UpstreamPool
	for i := 0; i < n; i++ {
		x := &ups{maxConns: vapi.Int("maxconns", 0, 2)}
		np := 1
		if i == 0 && vapi.Param("MULTIPEER", 1) == 1 {
			np = 1 + vapi.Choice("npeers", 2)
		}
		for j := 0; j < np; j++ {
			x.peers = append(x.peers, l4proxy.VerifPeerState{
				NumConns:  int32(vapi.Int("numconns", 0, 2)),
				Unhealthy: int32(vapi.Int("unhealthy", 0, 1)),
				Fails:     int32(vapi.Int("fails", 0, 2)),
			})
		}
		x.u = l4proxy.VerifUpstream([]string{dials[i]}, x.maxConns, maxFails, x.peers)
		xs = append(xs, x)
		pool = append(pool, x.u)
	}
	return xs, pool
}

func indexOf(xs []*ups, u *l4proxy.Upstream) int {
	for i, x := range xs {
		if x.u == u {
			return i
		}
	}
	return -1
}

func anyAvail(xs []*ups, mf int) bool {
	for _, x := range xs {
		if availRef(x, mf) {
			return true
		}
	}
	return false
}

func conn() *layer4.Connection {
	cx, _ := env.MatchingConn(nil, false)
	return cx
}

// common obligations of every policy
func checkCommon(xs []*ups, mf int, res *l4proxy.Upstream) int {
	if res == nil {
		vapi.Cover("none selected")
		vapi.Assert(!anyAvail(xs, mf), "no upstream selected although one is available")
		return -1
	}
	vapi.Cover("one selected")
	i := indexOf(xs, res)
	vapi.Assert(i >= 0, "selected upstream is not in the pool")
	vapi.Assert(availRef(xs[i], mf), "selected upstream is not available")
	return i
}

func poolSize() int { return vapi.Choice("n", vapi.Param("N", 4)+1) }
func maxFails() int { return []int{maxFailsAll, 0}[vapi.Choice("maxfails", 2)] }

func VH_first() {
	mf := maxFails()
	xs, pool := mkPool(poolSize(), mf)
	res := (&l4proxy.FirstSelection{}).Select(pool, conn())
	i := checkCommon(xs, mf, res)
	for j := 0; j < i; j++ {
		vapi.Assert(!availRef(xs[j], mf), "first: an earlier upstream is available")
	}
	vapi.Log("first", i)
}

func VH_least_conn() {
	mf := maxFails()
	xs, pool := mkPool(poolSize(), mf)
	res := (&l4proxy.LeastConnSelection{}).Select(pool, conn())
	i := checkCommon(xs, mf, res)
	if i >= 0 {
		for _, x := range xs {
			if availRef(x, mf) {
				vapi.Assert(totalRef(xs[i]) <= totalRef(x), "least_conn: an available upstream has fewer connections")
			}
		}
	}
}

func VH_random() {
	mf := maxFails()
	xs, pool := mkPool(poolSize(), mf)
	res := (&l4proxy.RandomSelection{}).Select(pool, conn())
	checkCommon(xs, mf, res)
}

func VH_random_choose() {
	mf := maxFails()
	xs, pool := mkPool(poolSize(), mf)
	r := &l4proxy.RandomChoiceSelection{Choose: 2 + vapi.Choice("choose", 2)}
	res := r.Select(pool, conn())
	checkCommon(xs, mf, res)
}

// robinStart: the counter value before the first selection. The symbolic part is
// 8 bits on top of a base far from / close to the 32-bit wrap (urem of a full
// 32-bit symbolic value by 3 stalls the bit-blaster).
func robinStart(wrap bool) uint32 {
	lo := uint32(vapi.Int("robin.lo", 0, 255))
	if wrap {
		return 0xFFFFFF00 + lo
	}
	base := []uint32{0, 0x7FFFFF00, 0xFFFFF000}[vapi.Choice("robin.base", 3)]
	return base + lo
}

func VH_round_robin()      { roundRobin(false) }
func VH_round_robin_wrap() { roundRobin(true) }

func roundRobin(wrap bool) {
	mf := maxFails()
	n := poolSize()
	xs, pool := mkPool(n, mf)
	r := &l4proxy.RoundRobinSelection{}
	vapi.SetU32(l4proxy.VerifRobinPtr(r), robinStart(wrap))
	m := 0
	for _, x := range xs {
		if availRef(x, mf) {
			m++
		}
	}
	// m consecutive selections on an unchanged pool visit every available upstream once
	seen := make([]bool, n)
	for k := 0; k < m; k++ {
		res := r.Select(pool, conn())
		i := checkCommon(xs, mf, res)
		if i >= 0 {
			vapi.Assert(!seen[i], "round_robin: an upstream was selected twice within one cycle")
			seen[i] = true
		}
	}
	if m == 0 && n > 0 {
		checkCommon(xs, mf, r.Select(pool, conn()))
	}
	if m > 1 {
		vapi.Cover("cycle of two or more")
	}
}

var hashCache map[string]uint32

// The hash is an arbitrary deterministic function of its input.
//
//verif:replace github.com/mholt/caddy-l4/modules/l4proxy.hash
func Repl_hash(s string) uint32 {
	if v, ok := hashCache[s]; ok {
		return v
	}
	v := vapi.Uint32("hash")
	hashCache[s] = v
	return v
}

func VH_ip_hash() {
	hashCache = map[string]uint32{}
	mf := maxFails()
	n := poolSize()
	xs, pool := mkPool(n, mf)
	key := []string{"192.0.2.1", "2001:db8::7", "@/run/sock"}[vapi.Choice("client", 3)]
	res := l4proxy.VerifHostByHashing(pool, key)
	i := checkCommon(xs, mf, res)
	// deterministic
	res2 := l4proxy.VerifHostByHashing(pool, key)
	vapi.Assert(res == res2, "ip_hash: not deterministic")
	// a function of the client and the *available* set only: dropping the
	// unavailable members from the pool must not change the choice
	var availOnly l4proxy.UpstreamPool
	for _, x := range xs {
		if availRef(x, mf) {
			availOnly = append(availOnly, x.u)
		}
	}
	if len(availOnly) < n {
		vapi.Cover("pool with unavailable members")
		vapi.Assert(l4proxy.VerifHostByHashing(availOnly, key) == res, "ip_hash: the choice depends on unavailable upstreams")
	}
	// other upstreams leave: the client's choice stays
	if i >= 0 && n > 1 {
		j := vapi.Int("leaver", 0, n-1)
		vapi.Assume(j != i)
		st := xs[j].peers[0]
		st.Unhealthy = 1
		xs[j].peers[0] = st
		for jj := 0; jj < n; jj++ {
			if jj == j {
				l4proxy.VerifSetPeer(xs[jj].u, 0, st)
			}
		}
		res3 := l4proxy.VerifHostByHashing(pool, key)
		vapi.Cover("leaver")
		vapi.Assert(res3 == res, "ip_hash: the client's upstream changed although it stayed available")
	}
}

func init() {
	for name, f := range map[string]func(){
		"VH_first": VH_first, "VH_least_conn": VH_least_conn, "VH_random": VH_random, "VH_random_choose": VH_random_choose,
		"VH_round_robin": VH_round_robin, "VH_round_robin_wrap": VH_round_robin_wrap, "VH_ip_hash": VH_ip_hash,
	} {
		vapi.Register("c10."+name, f)
	}
}
