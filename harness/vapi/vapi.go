// Package vapi is the harness API. Under the symbolic engine (symgo) every
// function here is intercepted by name; the bodies below are the *native*
// meaning used for replay: values come from a replay file.
package vapi

import (
	"runtime"
	"time"

	"encoding/hex"
	"encoding/json"
	"fmt"
	"os"
	"strings"
)

type replayFile struct {
	Harness string                 `json:"harness"`
	Inputs  map[string]interface{} `json:"inputs"`
	Choices []int                  `json:"choices"`
}

var (
	rf        replayFile
	counts    = map[string]int{}
	choiceIdx int
	// Trace is the observable trace of the native run.
	Trace []string
	// Failures collects assertion failures of the native run.
	Failures []string
	// AssumeViolated is set when the model violates a harness assumption.
	AssumeViolated string
)

// LoadReplay initialises the native run from a replay file.
func LoadReplay(path string) error {
	b, err := os.ReadFile(path)
	if err != nil {
		return err
	}
	rf = replayFile{}
	dec := json.NewDecoder(strings.NewReader(string(b)))
	dec.UseNumber()
	if err := dec.Decode(&rf); err != nil {
		return err
	}
	Reset()
	return nil
}

// SetReplay initialises the native run from in-memory data.
func SetReplay(inputs map[string]interface{}, choices []int) {
	rf = replayFile{Inputs: inputs, Choices: choices}
	Reset()
}

func Reset() {
	counts = map[string]int{}
	choiceIdx = 0
	Trace = nil
	Failures = nil
	AssumeViolated = ""
}

type abortRun struct{ why string }

// IsAbort reports whether a recovered value is vapi's own abort signal.
func IsAbort(r interface{}) (string, bool) {
	a, ok := r.(abortRun)
	return a.why, ok
}

func fresh(name string) string {
	n := counts[name]
	counts[name] = n + 1
	if n == 0 {
		return name
	}
	return fmt.Sprintf("%s#%d", name, n)
}

func num(name string) (uint64, bool) {
	v, ok := rf.Inputs[name]
	if !ok {
		return 0, false
	}
	switch x := v.(type) {
	case json.Number:
		if i, err := x.Int64(); err == nil {
			return uint64(i), true
		}
		var u uint64
		fmt.Sscan(x.String(), &u)
		return u, true
	case float64:
		return uint64(int64(x)), true
	case int:
		return uint64(x), true
	case int64:
		return uint64(x), true
	case uint64:
		return x, true
	case bool:
		if x {
			return 1, true
		}
		return 0, true
	}
	return 0, false
}

// Symbolic reports whether the harness runs under the symbolic engine.
func Symbolic() bool { return false }

// Int returns a fresh integer in [lo, hi].
func Int(name string, lo, hi int) int {
	v, ok := num(fresh(name))
	if !ok {
		return lo
	}
	return int(v)
}

func Uint8(name string) uint8   { v, _ := num(fresh(name)); return uint8(v) }
func Uint16(name string) uint16 { v, _ := num(fresh(name)); return uint16(v) }
func Uint32(name string) uint32 { v, _ := num(fresh(name)); return uint32(v) }
func Uint64(name string) uint64 { v, _ := num(fresh(name)); return v }
func Bool(name string) bool     { v, _ := num(fresh(name)); return v != 0 }

// Bytes returns a fresh byte slice of symbolic content and length <= maxLen
// (len == cap).
func Bytes(name string, maxLen int) []byte {
	v, ok := rf.Inputs[fresh(name)]
	if !ok {
		return []byte{}
	}
	s, _ := v.(string)
	b, _ := hex.DecodeString(s)
	return b[:len(b):len(b)]
}

// BytesN returns a fresh byte slice of symbolic content and exactly n bytes.
func BytesN(name string, n int) []byte {
	b := Bytes(name, n)
	if len(b) < n {
		nb := make([]byte, n)
		copy(nb, b)
		return nb
	}
	return b[:n:n]
}

// Assume restricts the inputs.
func Assume(c bool) {
	if !c {
		AssumeViolated = "assumption violated by replay inputs"
		panic(abortRun{"assume"})
	}
}

// Assert states the property.
func Assert(c bool, label string) {
	if !c {
		Failures = append(Failures, label)
		panic(abortRun{"assert:" + label})
	}
}

// AssertBytesEqual asserts a == b byte for byte (under the engine: refuted with
// a fresh symbolic index, so no bound on the length is needed).
func AssertBytesEqual(a, b []byte, label string) {
	if len(a) != len(b) {
		Assert(false, label)
	}
	for i := range a {
		if a[i] != b[i] {
			Assert(false, label)
		}
	}
}

// Or / And combine conditions without a control-flow fork under the engine.
func Or(a, b bool) bool  { return a || b }
func And(a, b bool) bool { return a && b }

// Min is min(a, b) without a control-flow fork under the engine.
func Min(a, b int) int {
	if a < b {
		return a
	}
	return b
}

// Advance moves the virtual clock forward (engine only; natively the wall clock cannot be steered).
func Advance(d time.Duration) {}

// Yield lets every other goroutine run until it blocks (engine); natively it yields the processor.
func Yield() { runtime.Gosched() }

// Elapsed is the virtual time since the start of the path, in nanoseconds.
func Elapsed() int64 { return 0 }

// Cover marks a reachability witness.
func Cover(label string) {}

// Choice is a k-ary control decision, explored exhaustively.
func Choice(name string, k int) int {
	if choiceIdx < len(rf.Choices) {
		c := rf.Choices[choiceIdx]
		choiceIdx++
		return c
	}
	return 0
}

// Log appends to the observable trace. Supported value kinds: integers, bool,
// string, []byte.
func Log(tag string, vals ...interface{}) {
	var sb strings.Builder
	sb.WriteString(tag)
	for _, v := range vals {
		sb.WriteByte(' ')
		switch x := v.(type) {
		case int:
			fmt.Fprint(&sb, uint64(x))
		case int8:
			fmt.Fprint(&sb, uint8(x))
		case int16:
			fmt.Fprint(&sb, uint16(x))
		case int32:
			fmt.Fprint(&sb, uint32(x))
		case int64:
			fmt.Fprint(&sb, uint64(x))
		case uint, uint8, uint16, uint32, uint64, bool:
			fmt.Fprint(&sb, x)
		case string:
			sb.WriteString(x)
		case []byte:
			sb.WriteString(hex.EncodeToString(x))
		case error:
			if x == nil {
				sb.WriteString("<nil>")
			} else {
				sb.WriteString("err")
			}
		case nil:
			sb.WriteString("<nil>")
		default:
			fmt.Fprintf(&sb, "%v", x)
		}
	}
	Trace = append(Trace, sb.String())
}

// SetU32 stores v into the 32-bit integer variable p points to, whatever its
// signedness (*uint32 or *int32): shims hand out such pointers as interface
// values so that they keep compiling when the field's type changes.
func SetU32(p interface{}, v uint32) {
	switch q := p.(type) {
	case *uint32:
		*q = v
	case *int32:
		*q = int32(v)
	default:
		panic("vapi.SetU32: unsupported pointer type")
	}
}

// ---- registry / parameters ----------------------------------------------------

var registry = map[string]func(){}

// Register makes a harness runnable by the native runner.
func Register(name string, f func()) { registry[name] = f }

// Lookup returns a registered harness.
func Lookup(name string) func() { return registry[name] }

var params = map[string]int{}

// SetParams sets the bound parameters of the native run.
func SetParams(p map[string]int) {
	params = map[string]int{}
	for k, v := range p {
		params[k] = v
	}
}

// Param returns a bound parameter chosen by the check driver (concrete under
// the engine as well); def is used when the driver does not set it.
func Param(name string, def int) int {
	if v, ok := params[name]; ok {
		return v
	}
	return def
}
