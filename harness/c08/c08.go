// Package c08: connections handled concurrently through the same provisioned
// configuration do not interfere. Two goroutines drive their own connections
// through ONE provisioned matcher / route list; the engine runs in race mode
// (happens-before data-race detection over the interpreted program, see
// engine/race.go) and the verdicts must equal what a private instance of the
// same matcher says about each stream alone.
package c08

import (
	"sync"
	"time"

	"github.com/caddyserver/caddy/v2"
	"go.uber.org/zap"

	"github.com/mholt/caddy-l4/layer4"
	"github.com/mholt/caddy-l4/modules/l4http"
	"github.com/mholt/caddy-l4/modules/l4openvpn"
	"github.com/mholt/caddy-l4/modules/l4postgres"
	"github.com/mholt/caddy-l4/modules/l4proxy"
	"github.com/mholt/caddy-l4/modules/l4proxyprotocol"
	"github.com/mholt/caddy-l4/modules/l4rdp"
	"github.com/mholt/caddy-l4/modules/l4regexp"
	"github.com/mholt/caddy-l4/modules/l4socks"
	"github.com/mholt/caddy-l4/modules/l4ssh"
	"github.com/mholt/caddy-l4/modules/l4tls"
	"github.com/mholt/caddy-l4/modules/l4winbox"
	"github.com/mholt/caddy-l4/modules/l4wireguard"
	"github.com/mholt/caddy-l4/modules/l4xmpp"

	"verifharness/env"
	"verifharness/vapi"
)

type provisioner interface {
	Provision(caddy.Context) error
}

func class(ok bool, err error) int {
	switch env.ErrClass(err) {
	case "nil":
		if ok {
			return 2
		}
		return 1
	case "needmore":
		return 0
	}
	return 3
}

// conc runs body(0..n-1) in n goroutines and waits for all of them.
func conc(n int, body func(i int)) {
	var wg sync.WaitGroup
	for i := 0; i < n; i++ {
		wg.Add(1)
		go func(i int) {
			defer wg.Done()
			body(i)
		}(i)
	}
	wg.Wait()
}

func evalOne(m layer4.ConnMatcher, b []byte) int {
	cx, _ := env.MatchingConn(b, false)
	ok, err := layer4.MatcherSet{m}.Match(cx)
	return class(ok, err)
}

// raceMatch: two connections are matched at the same time by one provisioned
// matcher instance. SAME=1: both carry the same symbolic stream (every branch
// of the second evaluation is implied by the first: the cheapest way to put
// two goroutines through every path of Match); SAME=0: independent streams.
func raceMatch(mk func() layer4.ConnMatcher, L int) {
	ref, m := mk(), mk()
	for _, x := range []layer4.ConnMatcher{ref, m} {
		if _, isTLS := x.(*l4tls.MatchTLS); isTLS {
			continue // built provisioned (no sub-matchers) by the shim
		}
		if p, ok := x.(provisioner); ok {
			vapi.Assert(p.Provision(caddy.Context{}) == nil, "provision")
		}
	}
	d := vapi.Bytes("D", vapi.Param("L", L))
	e := d
	if vapi.Param("SAME", 1) == 0 {
		e = vapi.Bytes("E", vapi.Param("L", L))
	}
	streams := [][]byte{d, e}
	want := []int{evalOne(ref, d), evalOne(ref, e)}
	got := make([]int, 2)
	conc(2, func(i int) { got[i] = evalOne(m, streams[i]) })
	vapi.Cover("matched concurrently")
	if want[0] == 2 {
		vapi.Cover("a stream matches")
	}
	vapi.Assert(got[0] == want[0] && got[1] == want[1], "a routing verdict differs from what the matcher says about the stream alone")
}

func VH_ssh()      { raceMatch(func() layer4.ConnMatcher { return &l4ssh.MatchSSH{} }, 6) }
func VH_xmpp()     { raceMatch(func() layer4.ConnMatcher { return &l4xmpp.MatchXMPP{} }, 52) }
func VH_postgres() { raceMatch(func() layer4.ConnMatcher { return &l4postgres.MatchPostgres{} }, 12) }
func VH_socks4() {
	raceMatch(func() layer4.ConnMatcher {
		return &l4socks.Socks4Matcher{Commands: []string{"CONNECT"}, Ports: []uint16{80}, Networks: []string{"10.0.0.0/8"}}
	}, 10)
}
func VH_socks5() {
	raceMatch(func() layer4.ConnMatcher { return &l4socks.Socks5Matcher{AuthMethods: []uint16{1, 2}} }, 6)
}
func VH_proxyproto() {
	raceMatch(func() layer4.ConnMatcher { return &l4proxyprotocol.MatchProxyProtocol{} }, 13)
}
func VH_regexp() {
	raceMatch(func() layer4.ConnMatcher { return &l4regexp.MatchRegexp{Pattern: "^GET /", Count: 5} }, 6)
}
func VH_wireguard() {
	raceMatch(func() layer4.ConnMatcher { return &l4wireguard.MatchWireGuard{} }, 148)
}
func VH_tls()    { raceMatch(func() layer4.ConnMatcher { return l4tls.VerifNewMatchTLS() }, 5+47) }
func VH_rdp()    { raceMatch(func() layer4.ConnMatcher { return &l4rdp.MatchRDP{} }, 16) }
func VH_winbox() { raceMatch(func() layer4.ConnMatcher { return &l4winbox.MatchWinbox{} }, 40) }
func VH_openvpn() {
	raceMatch(func() layer4.ConnMatcher { return &l4openvpn.MatchOpenVPN{IgnoreTimestamp: true} }, 58)
}
func VH_http() {
	d := vapi.Bytes("D", vapi.Param("L", 16))
	_, isHTTP := l4http.VerifIsHttp(d)
	vapi.Assume(!isHTTP) // beyond the request-line heuristic the matcher is net/http (outside the claim)
	m := &l4http.MatchHTTP{}
	want := evalOne(&l4http.MatchHTTP{}, d)
	got := make([]int, 2)
	conc(2, func(i int) { got[i] = evalOne(m, d) })
	vapi.Cover("matched concurrently")
	vapi.Assert(got[0] == want && got[1] == want, "a routing verdict differs from what the matcher says about the stream alone")
}

// ---- whole router: one compiled route list, two connections at once ------------------------------

type term struct{ hits *[2]int }

func (t term) Handle(cx *layer4.Connection, _ layer4.Handler) error {
	i := 0
	if cx.RemoteAddr().String() != "10.0.0.10:1000" {
		i = 1
	}
	t.hits[i]++
	p := make([]byte, 4)
	_, _ = cx.Read(p)
	return nil
}

type fb struct{ hits *[2]int }

func (f fb) Handle(cx *layer4.Connection) error {
	i := 0
	if cx.RemoteAddr().String() != "10.0.0.10:1000" {
		i = 1
	}
	f.hits[i] += 10
	return nil
}

// VH_router: two connections go through one compiled route list (regexp and
// byte matchers, pooled prefetch buffers) at the same time; each must end as it
// would alone.
func VH_router() {
	re := &l4regexp.MatchRegexp{Pattern: "^ab", Count: 2}
	vapi.Assert(re.Provision(caddy.Context{}) == nil, "provision")
	at := &env.At{N: vapi.Int("N", 0, 1), K: vapi.Uint8("K"), V0: vapi.Bool("V0")}
	var hits [2]int
	rl := layer4.RouteList{
		layer4.VerifNewRoute([]layer4.MatcherSet{{re}}, []layer4.NextHandler{term{&hits}}),
		layer4.VerifNewRoute([]layer4.MatcherSet{{at}}, []layer4.NextHandler{term{&hits}}),
	}
	h := rl.Compile(zap.NewNop(), 3*time.Second, fb{&hits})
	streams := [][]byte{vapi.Bytes("D", vapi.Param("L", 3)), vapi.Bytes("E", vapi.Param("L", 3))}
	conns := []*env.SymConn{}
	for i := 0; i < 2; i++ {
		conns = append(conns, &env.SymConn{D: streams[i], MaxReads: 4, Remote: &netAddr{i}})
	}
	conc(2, func(i int) {
		buf := layer4.VerifBufPoolGet()
		cx := layer4.WrapConnection(conns[i], buf[:0], zap.NewNop())
		_ = h.Handle(cx)
		layer4.VerifBufPoolPut(buf)
	})
	vapi.Cover("routed concurrently")
	for i := 0; i < 2; i++ {
		vapi.Assert(hits[i] == 0 || hits[i] == 1 || hits[i] == 10, "a connection was handled more than once")
	}
}

// ---- load-balancing policies: two connections select from one pool at once ----------------------

// VH_select: every selection policy, two goroutines selecting at the same time from
// one pool whose peers' counters other goroutines update atomically meanwhile.
func VH_select() {
	names := []string{"first", "round_robin", "least_conn", "random", "random_choose", "ip_hash"}
	k := vapi.Param("POLICY", -1)
	if k < 0 {
		k = vapi.Choice("policy", len(names))
	}
	var sel l4proxy.Selector
	switch names[k] {
	case "first":
		sel = &l4proxy.FirstSelection{}
	case "round_robin":
		sel = &l4proxy.RoundRobinSelection{}
	case "least_conn":
		sel = &l4proxy.LeastConnSelection{}
	case "random":
		sel = &l4proxy.RandomSelection{}
	case "random_choose":
		sel = &l4proxy.RandomChoiceSelection{Choose: 2}
	case "ip_hash":
		sel = &l4proxy.IPHashSelection{}
	}
	var pool l4proxy.UpstreamPool
	for i := 0; i < 3; i++ {
		st := []l4proxy.VerifPeerState{{NumConns: int32(vapi.Int("numconns", 0, 1))}}
		pool = append(pool, l4proxy.VerifUpstream([]string{[]string{"10.0.0.1:80", "10.0.0.2:80", "10.0.0.3:80"}[i]}, 2, 0, st))
	}
	got := make([]*l4proxy.Upstream, 2)
	conc(3, func(i int) {
		if i == 2 {
			// a third connection starts and ends on upstream 0 meanwhile (what Handle does around dialling)
			l4proxy.VerifCountConn(pool[0], 0, 1)
			l4proxy.VerifCountConn(pool[0], 0, -1)
			return
		}
		cx, _ := env.MatchingConn(nil, false)
		got[i] = sel.Select(pool, cx)
	})
	vapi.Cover("selected concurrently")
	for i := 0; i < 2; i++ {
		vapi.Assert(got[i] != nil, "nothing selected although every upstream is available")
	}
}

type netAddr struct{ i int }

func (a *netAddr) Network() string { return "tcp" }
func (a *netAddr) String() string {
	if a.i == 0 {
		return "10.0.0.10:1000"
	}
	return "10.0.0.11:1000"
}

func init() {
	for name, f := range map[string]func(){
		"VH_ssh": VH_ssh, "VH_xmpp": VH_xmpp, "VH_postgres": VH_postgres, "VH_socks4": VH_socks4, "VH_socks5": VH_socks5,
		"VH_proxyproto": VH_proxyproto, "VH_regexp": VH_regexp, "VH_wireguard": VH_wireguard, "VH_tls": VH_tls, "VH_rdp": VH_rdp,
		"VH_winbox": VH_winbox, "VH_openvpn": VH_openvpn, "VH_http": VH_http, "VH_router": VH_router, "VH_select": VH_select,
	} {
		vapi.Register("c08."+name, f)
	}
}
