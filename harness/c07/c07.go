// Package c07: the TLS matcher reads the ClientHello as crypto/tls does.
// Both parsers - the repository's fork and the standard library's own
// clientHelloMsg.unmarshal with the server's clientHelloInfo mapping - are
// executed from SSA on the same symbolic bytes.
package c07

import (
	"crypto/tls"
	"github.com/caddyserver/caddy/v2"
	"io"

	"github.com/mholt/caddy-l4/layer4"
	"github.com/mholt/caddy-l4/modules/l4tls"

	"verifharness/env"

	"verifharness/vapi"
)

func eqU16[T ~uint16, U ~uint16](a []T, b []U, what string) {
	vapi.Assert(len(a) == len(b), what+": different number of entries")
	for i := range a {
		if i < len(b) {
			vapi.Assert(uint16(a[i]) == uint16(b[i]), what+": different entry")
		}
	}
}

// hello builds a ClientHello handshake message whose fixed part is free and
// whose extension block is a free byte string of bounded length.
func hello() []byte {
	ext := vapi.Bytes("ext", vapi.Param("EXT", 12))
	sid := vapi.Bytes("sid", 1)
	ncs := vapi.Int("ncs", 1, 2)
	cs := vapi.BytesN("cs", 4)[:2*ncs]
	b := make([]byte, 0, 128)
	b = append(b, 1, 0, 0, 0) // type, uint24 length (ignored by both parsers)
	if vapi.Param("VERS", 0) == 1 {
		b = append(b, vapi.BytesN("vers", 2)...)
	} else {
		b = append(b, 3, 3)
	}
	b = append(b, vapi.BytesN("random", 32)...)
	b = append(b, byte(len(sid)))
	b = append(b, sid...)
	b = append(b, 0, byte(len(cs)))
	b = append(b, cs...)
	b = append(b, 1, vapi.Uint8("compression"))
	if vapi.Bool("has-extensions") {
		// optional concrete first extension (PRE), then the free extension bytes
		pre := [][]byte{nil, {0, 35, 0, 1, 0xAA}, {0, 11, 0, 2, 1, 0}, {0xff, 1, 0, 1, 0}, {0, 18, 0, 0}}[vapi.Param("PRE", 0)]
		n := len(pre) + len(ext)
		b = append(b, byte(n>>8), byte(n))
		b = append(b, pre...)
		b = append(b, ext...)
	}
	return b
}

func VH_parse() {
	h := hello()
	ok, std := tls.VerifUnmarshalClientHello(h)
	if !ok {
		vapi.Cover("rejected by crypto/tls")
		return
	}
	vapi.Cover("accepted by crypto/tls")
	fork := l4tls.VerifParseRawClientHello(h)
	vapi.AssertBytesEqual([]byte(fork.ServerName), []byte(std.ServerName), "server name differs from crypto/tls")
	vapi.Assert(len(fork.SupportedProtos) == len(std.SupportedProtos), "ALPN list length differs from crypto/tls")
	for i := range std.SupportedProtos {
		if i < len(fork.SupportedProtos) {
			vapi.AssertBytesEqual([]byte(fork.SupportedProtos[i]), []byte(std.SupportedProtos[i]), "ALPN protocol differs from crypto/tls")
		}
	}
	eqU16(fork.SupportedVersions, std.SupportedVersions, "supported versions")
	eqU16(fork.CipherSuites, std.CipherSuites, "cipher suites")
	eqU16(fork.SupportedCurves, std.SupportedCurves, "supported curves")
	eqU16(fork.SignatureSchemes, std.SignatureSchemes, "signature schemes")
	vapi.Assert(len(fork.SupportedPoints) == len(std.SupportedPoints), "point formats differ")
	if std.ServerName != "" {
		vapi.Cover("server name present")
	}
	if len(std.SupportedProtos) > 0 {
		vapi.Cover("alpn present")
	}
	vapi.Log("hello", len(h), len(std.ServerName), len(std.SupportedProtos))
}

// VH_alpn: the ALPN sub-matcher decides on exactly the protocol list the server sees.
func VH_alpn() {
	h := hello()
	ok, std := tls.VerifUnmarshalClientHello(h)
	if !ok {
		vapi.Cover("rejected by crypto/tls")
		return
	}
	vapi.Cover("accepted by crypto/tls")
	m := l4tls.MatchALPN{"h2", "x"}
	if vapi.Param("EMPTYCFG", 0) == 1 {
		// a configured value that is (or resolves to) the empty string is simply a value no client
		// offers (crypto/tls rejects hellos with empty protocol names); the others still count
		m = l4tls.MatchALPN{"", "h2", "{env.VERIF_C07_UNSET}", "x"}
	}
	got := m.Match(std)
	want := false
	for _, p := range std.SupportedProtos {
		if p == "h2" || p == "x" {
			want = true
		}
	}
	if want {
		vapi.Cover("alpn matches")
	}
	vapi.Assert(got == want, "alpn matcher verdict differs from exact membership in the protocols the server sees")
}

// sniHello builds a complete TLS record holding a ClientHello whose only extension is server_name.
func sniHello(name string) []byte {
	ext := []byte{0, 0, 0, byte(len(name) + 5), 0, byte(len(name) + 3), 0, 0, byte(len(name))}
	ext = append(ext, name...)
	b := []byte{3, 3}
	b = append(b, make([]byte, 32)...)
	b = append(b, 0, 0, 2, 0x13, 0x01, 1, 0, 0, byte(len(ext)))
	b = append(b, ext...)
	h := append([]byte{1, 0, 0, byte(len(b))}, b...)
	return append([]byte{0x16, 3, 1, 0, byte(len(h))}, h...)
}

// VH_two_hellos: two ClientHellos are matched on one connection (TLS inside TLS: the
// tls handler terminates the outer session, a tls matcher then looks at the inner
// handshake): each evaluation reads the hello that is on the wire at that moment.
func VH_two_hellos() {
	names := []string{"outer.example", "in.example", "x"}
	n1, n2 := names[vapi.Choice("first", 3)], names[vapi.Choice("second", 3)]
	first, second := sniHello(n1), sniHello(n2)
	m := l4tls.VerifNewMatchTLS()
	cx, _ := env.MatchingConn(append(append([]byte{}, first...), second...), false)
	ok, err := layer4.MatcherSet{m}.Match(cx)
	vapi.Assert(ok && err == nil, "a well-formed hello was not matched")
	repl := cx.Context.Value(layer4.ReplacerCtxKey).(*caddy.Replacer)
	v, _ := repl.Get("l4.tls.server_name")
	vapi.Assert(v == n1, "server name placeholder wrong after the first hello")
	// the handler consumes the outer hello; the inner one is what is on the wire now
	n, _ := io.ReadFull(cx, make([]byte, len(first)))
	vapi.Assert(n == len(first), "could not consume the first hello")
	ok, err = layer4.MatcherSet{m}.Match(cx)
	vapi.Cover("second hello matched")
	vapi.Assert(ok && err == nil, "the second well-formed hello was not matched")
	v, _ = repl.Get("l4.tls.server_name")
	vapi.Assert(v == n2, "the second evaluation was judged by the first hello (server name placeholder is stale)")
}

// VH_record: a record that is not a TLS handshake never matches; a hello that
// is not complete is never decided either way.
func VH_record() {
	d := vapi.Bytes("D", vapi.Param("L", 50))
	cx, _ := env.MatchingConn(d, false)
	layer4.VerifFreeze(cx)
	ok, err := l4tls.VerifNewMatchTLS().Match(cx)
	layer4.VerifUnfreeze(cx)
	cls := env.ErrClass(err)
	if len(d) < 5 {
		vapi.Cover("header incomplete")
		vapi.Assert(!ok && cls == "needmore", "decided on an incomplete record header")
		return
	}
	if d[0] != 0x16 {
		vapi.Cover("not a handshake record")
		vapi.Assert(!ok && cls == "nil", "a record that is not a TLS handshake must simply not match")
		return
	}
	declared := int(d[3])<<8 | int(d[4])
	if len(d)-5 < declared {
		vapi.Cover("hello incomplete")
		vapi.Assert(!ok && cls == "needmore", "an incomplete ClientHello was decided")
	} else {
		vapi.Cover("hello complete")
		vapi.Assert(cls == "nil", "a complete record must be decided")
	}
}

func init() {
	vapi.Register("c07.VH_record", VH_record)
	vapi.Register("c07.VH_alpn", VH_alpn)
	vapi.Register("c07.VH_two_hellos", VH_two_hellos)
	vapi.Register("c07.VH_parse", VH_parse)
}
