// Package c17: throttled reads never exceed burst + rate x time; the stream
// stays intact. The real throttle handler and throttledConn.Read run on the
// virtual clock; x/time/rate.Limiter is replaced by an integer token bucket
// with the documented contract (its float64 arithmetic is not encoded).
package c17

import (
	"context"
	"errors"
	"time"

	"github.com/caddyserver/caddy/v2"
	"golang.org/x/time/rate"

	"github.com/mholt/caddy-l4/layer4"
	"github.com/mholt/caddy-l4/modules/l4throttle"
	"go.uber.org/zap"

	"verifharness/env"
	"verifharness/vapi"
)

// ---- token bucket contract -----------------------------------------------------
type bucket struct {
	rate   int64 // tokens per second
	burst  int64
	tokens int64 // scaled by 1e9 (nano-tokens) to stay in integers
	last   int64 // virtual ns
	waits  []int // the n of every WaitN
}

var buckets map[*rate.Limiter]*bucket

func (b *bucket) advance(now int64) {
	b.tokens += (now - b.last) * b.rate
	if b.tokens > b.burst*1e9 {
		b.tokens = b.burst * 1e9
	}
	b.last = now
}

//verif:replace golang.org/x/time/rate.NewLimiter
func Repl_NewLimiter(r rate.Limit, burst int) *rate.Limiter {
	l := &rate.Limiter{}
	buckets[l] = &bucket{rate: int64(r), burst: int64(burst), tokens: int64(burst) * 1e9, last: vapi.Elapsed()}
	return l
}

//verif:replace (*golang.org/x/time/rate.Limiter).Burst
func Repl_Burst(l *rate.Limiter) int { return int(buckets[l].burst) }

var errExceeds = errors.New("rate: Wait(n) exceeds limiter's burst")

//verif:replace (*golang.org/x/time/rate.Limiter).WaitN
func Repl_WaitN(l *rate.Limiter, ctx context.Context, n int) error {
	b := buckets[l]
	b.waits = append(b.waits, n)
	if int64(n) > b.burst {
		return errExceeds
	}
	b.advance(vapi.Elapsed())
	need := int64(n)*1e9 - b.tokens
	if need > 0 {
		if b.rate == 0 {
			return errExceeds
		}
		wait := (need + b.rate - 1) / b.rate // ns until n tokens are there
		vapi.Advance(time.Duration(wait))
		b.advance(vapi.Elapsed())
	}
	b.tokens -= int64(n) * 1e9
	return nil
}

// ReserveN(t, n): takes n tokens at instant t (n < 0 gives tokens back); the reservation
// tells how long to wait until they are there.
var reservations map[*rate.Reservation]time.Duration
var wall0 time.Time // wall-clock instant of virtual time 0 for this path

//verif:replace (*golang.org/x/time/rate.Limiter).ReserveN
func Repl_ReserveN(l *rate.Limiter, t time.Time, n int) *rate.Reservation {
	b := buckets[l]
	b.waits = append(b.waits, n)
	at := vapi.Elapsed() - int64(time.Since(t)) // a stale t lies in the past
	if at > b.last {
		b.advance(at)
	} else if at < b.last {
		b.last = at // what x/time/rate does with a time that precedes its last update
	}
	b.tokens -= int64(n) * 1e9
	r := &rate.Reservation{}
	var d time.Duration
	if b.tokens < 0 && b.rate > 0 {
		d = time.Duration((-b.tokens + b.rate - 1) / b.rate)
	}
	if reservations == nil {
		reservations = map[*rate.Reservation]time.Duration{}
	}
	reservations[r] = d
	return r
}

//verif:replace (*golang.org/x/time/rate.Reservation).OK
func Repl_ResOK(r *rate.Reservation) bool { return true }

//verif:replace (*golang.org/x/time/rate.Reservation).Delay
func Repl_ResDelay(r *rate.Reservation) time.Duration { return reservations[r] }

//verif:replace (*golang.org/x/time/rate.Reservation).DelayFrom
func Repl_ResDelayFrom(r *rate.Reservation, t time.Time) time.Duration { return reservations[r] }

// ---- scenario ---------------------------------------------------------------------------
type cfg struct {
	rps, burst, trps, tburst int
	latency                  time.Duration
}

var cfgs = []cfg{
	{rps: 1000, burst: 100},
	{rps: 2000, burst: 64, trps: 3000, tburst: 100},
	{trps: 1000, tburst: 50},
	{rps: 500, burst: 10, latency: 250 * time.Millisecond},
}

type connRec struct {
	conn  *env.SymConn
	first int64   // instant of the first read on the client (-1 none)
	at    []int64 // instant of each client read
	got   []int   // bytes each client read returned
}

// obsConn notes when the throttled connection actually reads from the client.
type obsConn struct {
	*env.SymConn
	r *connRec
}

func (o obsConn) Read(p []byte) (int, error) {
	if o.r.first < 0 {
		o.r.first = vapi.Elapsed()
	}
	n, err := o.SymConn.Read(p)
	o.r.at = append(o.r.at, vapi.Elapsed())
	o.r.got = append(o.r.got, n)
	return n, err
}

func VH_throttle() {
	buckets = map[*rate.Limiter]*bucket{}
	c := cfgs[vapi.Param("CFG", 0)]
	h := &l4throttle.Handler{ReadBytesPerSecond: float64(c.rps), ReadBurstSize: c.burst,
		TotalReadBytesPerSecond: float64(c.trps), TotalReadBurstSize: c.tburst, Latency: caddy.Duration(c.latency)}
	vapi.Assert(h.Provision(caddy.Context{}) == nil, "provision")
	nconns := vapi.Param("CONNS", 2)
	var recs []*connRec
	start := vapi.Elapsed()
	totalBytes := 0
	for ci := 0; ci < nconns; ci++ {
		d := vapi.Bytes([]string{"D", "E"}[ci], vapi.Param("L", 400))
		r := &connRec{conn: &env.SymConn{D: d}, first: -1}
		recs = append(recs, r)
		cx := layer4.WrapConnection(obsConn{r.conn, r}, nil, zap.NewNop())
		t0 := vapi.Elapsed()
		pos := 0
		err := h.Handle(cx, layer4.HandlerFunc(func(cx *layer4.Connection) error {
			for k := 0; k < vapi.Param("READS", 3); k++ {
				sizes := []int{1, 100, 300, 32, 64, 101}
				sz := sizes[vapi.Choice("bufsize", vapi.Param("SIZES", 3))]
				p := make([]byte, sz)
				n, err := cx.Read(p)
				vapi.AssertBytesEqual(p[:n], d[pos:pos+n], "throttling lost, duplicated or reordered bytes")
				pos += n
				if err != nil {
					break
				}
			}
			return nil
		}))
		vapi.Assert(err == nil, "Handle failed")
		// latency: the first read on the client is not attempted before it has passed
		if r.first >= 0 {
			vapi.Assert(r.first-t0 >= int64(c.latency), "the first read was attempted before the configured latency had passed")
		}
		// per-connection bound at every read instant
		if c.rps > 0 || c.burst > 0 {
			sum := 0
			for i, n := range r.got {
				sum += n
				el := r.at[i] - r.first
				vapi.Assert(int64(sum)*1e9 <= int64(c.burst)*1e9+int64(c.rps)*el, "per-connection bytes exceed burst + rate x time")
			}
		}
		for _, n := range r.got {
			totalBytes += n
		}
		// total bound (summed over the connections of this handler)
		if c.trps > 0 || c.tburst > 0 {
			el := vapi.Elapsed() - start
			vapi.Assert(int64(totalBytes)*1e9 <= int64(c.tburst)*1e9+int64(c.trps)*el, "bytes summed over all connections exceed total burst + total rate x time")
		}
	}
	vapi.Cover("throttled")
	if totalBytes > 0 {
		vapi.Cover("bytes read")
	}
	for _, b := range buckets {
		for _, n := range b.waits {
			vapi.Assert(int64(n) <= b.burst, "WaitN asked for more than the burst")
		}
	}
}

// VH_cancel: the connection's context is cancelled while the handler sits out
// the latency: the client must still not be read before the latency has passed
// (the handler gives up instead).
func VH_cancel() {
	buckets = map[*rate.Limiter]*bucket{}
	lat := 400 * time.Millisecond
	h := &l4throttle.Handler{Latency: caddy.Duration(lat)}
	vapi.Assert(h.Provision(caddy.Context{}) == nil, "provision")
	d := vapi.Bytes("D", 8)
	r := &connRec{conn: &env.SymConn{D: d}, first: -1}
	cx := layer4.WrapConnection(obsConn{r.conn, r}, nil, zap.NewNop())
	ctx, cancel := context.WithCancel(context.Background())
	cx.Context = ctx
	at := []time.Duration{50 * time.Millisecond, 399 * time.Millisecond, 400 * time.Millisecond, 600 * time.Millisecond}[vapi.Choice("cancel at", 4)]
	go func() {
		time.Sleep(at)
		cancel()
	}()
	t0 := vapi.Elapsed()
	ran := false
	err := h.Handle(cx, layer4.HandlerFunc(func(cx *layer4.Connection) error {
		ran = true
		p := make([]byte, 8)
		_, _ = cx.Read(p)
		return nil
	}))
	if r.first >= 0 {
		vapi.Assert(r.first-t0 >= int64(lat), "the first read was attempted before the configured latency had passed")
	}
	if at < lat {
		vapi.Cover("cancelled during the latency")
		vapi.Assert(err != nil && !ran, "a connection cancelled during the latency was handed on")
	} else if at > lat {
		vapi.Cover("cancelled afterwards")
		vapi.Assert(err == nil && ran, "the handler chain did not run after the latency")
	}
}

func init() {
	vapi.Register("c17.VH_cancel", VH_cancel)
	vapi.Register("c17.VH_throttle", VH_throttle)
}
