// Package c01: match-and-rewind - every consuming handler reads the client's
// stream exactly once, in order, from the first unconsumed byte. The real
// Connection/Compile machinery runs with its real constants (2048-byte
// prefetch chunk, 8192-byte matching limit) on a symbolic stream of symbolic
// length with symbolic segmentation.
package c01

import (
	"bufio"
	"io"
	"net"
	"time"

	"github.com/caddyserver/caddy/v2"
	"github.com/mastercactapus/proxyprotocol"
	"github.com/mholt/caddy-l4/layer4"
	"github.com/mholt/caddy-l4/modules/l4echo"
	"github.com/mholt/caddy-l4/modules/l4proxyprotocol"
	"github.com/mholt/caddy-l4/modules/l4tee"
	"github.com/mholt/caddy-l4/modules/l4throttle"
	"go.uber.org/zap"

	"verifharness/env"
	"verifharness/vapi"
)

// need is a matcher that reads N bytes and then says V.
type need struct {
	N int
	V bool
}

func (m *need) Match(cx *layer4.Connection) (bool, error) {
	b := make([]byte, m.N)
	if _, err := io.ReadFull(cx, b); err != nil {
		return false, err
	}
	return m.V, nil
}

type state struct {
	D    []byte
	conn *env.SymConn
	base int
	ran  int
}

var st *state

// rec is the terminal recording handler: what it reads must be D[base:...].
type rec struct {
	tag   string
	drain bool // keep reading (unchecked) until an error: a tee branch must not stall the main chain
}

func (r rec) Handle(cx *layer4.Connection) error {
	st.ran++
	vapi.Cover("recorder ran")
	// every single read must continue the client's stream exactly where the
	// previous consumer stopped (asserted per read: one copy level per query)
	pos := st.base
	total := 0
	var err error
	for i := 0; i < vapi.Param("READS", 2); i++ {
		p := make([]byte, vapi.Int("rdsz", 1, vapi.Param("RDMAX", 12000)))
		var n int
		n, err = cx.Read(p)
		vapi.Assert(n <= len(st.D)-pos, "handler read more bytes than the client sent")
		vapi.AssertBytesEqual(p[:n], st.D[pos:pos+n], "handler did not read the client's stream from the first unconsumed byte")
		pos += n
		total += n
		if err != nil {
			break
		}
	}
	vapi.Log("rec", r.tag, total)
	if err == io.EOF {
		vapi.Cover("read to EOF")
		vapi.Assert(pos == len(st.D), "bytes were lost: EOF before the end of the client's stream")
	}
	if total > layer4.VerifPrefetchChunkSize {
		vapi.Cover("read more than one prefetch chunk")
	}
	if r.drain {
		p := make([]byte, 16384)
		for i := 0; i < 8 && err == nil; i++ {
			_, err = cx.Read(p)
		}
		return nil
	}
	st.base = pos
	return nil
}

type recNext struct{ r rec }

func (r recNext) Handle(cx *layer4.Connection, _ layer4.Handler) error { return r.r.Handle(cx) }

func start(maxLen int) *layer4.Connection {
	st = &state{}
	st.D = vapi.Bytes("D", maxLen)
	st.conn = &env.SymConn{D: st.D, MaxReads: vapi.Param("ROUNDS", 6)}
	return layer4.WrapConnection(st.conn, make([]byte, 0, layer4.VerifPrefetchChunkSize), zap.NewNop())
}

func route(n *need, hs ...layer4.NextHandler) *layer4.Route {
	return layer4.VerifNewRoute([]layer4.MatcherSet{{n}}, hs)
}

// VH_core: one route, a matcher needing N bytes (0..10240: beyond the matching
// limit the buffer-full path is taken), a terminal recorder.
func VH_core() {
	cx := start(vapi.Param("L", 24576))
	n := &need{N: vapi.Int("N", 0, vapi.Param("NMAX", 10240)), V: vapi.Bool("V")}
	rl := layer4.RouteList{route(n, recNext{rec{tag: "route"}})}
	h := rl.Compile(zap.NewNop(), 3*time.Second, rec{tag: "fallback"})
	err := h.Handle(cx)
	vapi.Assert(err == nil, "Handle returned an error")
	if layer4.VerifBufLen(cx) > layer4.VerifPrefetchChunkSize {
		vapi.Cover("buffer grew beyond the pooled capacity")
	}
}

// VH_two_matchers: two matchers in one set reading different amounts; the
// second sees the stream from the same first byte (freeze/unfreeze).
func VH_two_matchers() {
	cx := start(vapi.Param("L", 6000))
	a := &need{N: vapi.Int("N", 0, 3000), V: true}
	b := &need{N: vapi.Int("N", 0, 3000), V: vapi.Bool("V")}
	rl := layer4.RouteList{layer4.VerifNewRoute([]layer4.MatcherSet{{a, b}}, []layer4.NextHandler{recNext{rec{tag: "route"}}})}
	h := rl.Compile(zap.NewNop(), 3*time.Second, rec{tag: "fallback"})
	vapi.Assert(h.Handle(cx) == nil, "Handle returned an error")
}

// passConn reads through the wrapped layer4 connection (identity transformer):
// the shape of tls.Conn and proxyprotocol.Conn.
type passConn struct {
	net.Conn
	inner *layer4.Connection
}

func (p passConn) Read(b []byte) (int, error) { return p.inner.Read(b) }

// drainWrap models a handler that terminates a protocol layer: it reads through
// cx (at least everything that was prefetched: a conforming TLS client cannot
// send its second flight before the server's first) and passes on cx.Wrap(conn).
type drainWrap struct{}

func (drainWrap) Handle(cx *layer4.Connection, next layer4.Handler) error {
	buffered := layer4.VerifBuffered(cx)
	c := vapi.Int("handshake", 0, 12000)
	vapi.Assume(c >= buffered)
	p := make([]byte, c)
	n, _ := cx.Read(p) // one read drains everything that was prefetched
	vapi.AssertBytesEqual(p[:n], st.D[st.base:st.base+n], "wrapping handler read wrong bytes")
	st.base += n
	vapi.Cover("wrapping handler ran")
	return next.Handle(cx.Wrap(passConn{Conn: cx, inner: cx}))
}

// VH_wrap: a non-terminal wrapping handler, then further routes on the wrapped connection.
func VH_wrap() {
	cx := start(vapi.Param("L", 9000))
	n0 := &need{N: vapi.Int("N", 0, 3000), V: true}
	n1 := &need{N: vapi.Int("N", 0, 3000), V: vapi.Bool("V")}
	rl := layer4.RouteList{route(n0, drainWrap{}), route(n1, recNext{rec{tag: "route1"}})}
	h := rl.Compile(zap.NewNop(), 3*time.Second, rec{tag: "fallback"})
	vapi.Assert(h.Handle(cx) == nil, "Handle returned an error")
}

// The PROXY header parser is library code outside the claim; what matters here
// is that it consumes exactly the header from the handler's bufio.Reader. The
// stream starts with one of three concrete, valid headers, so the engine's
// replacement ("discard len(header) bytes") and the real parser (used by the
// native twin) consume the same bytes.
var hdrLen int

var ppHeaders = [][]byte{
	// v2, LOCAL command, no addresses (16 bytes)
	append([]byte("\r\n\r\n\x00\r\nQUIT\n"), 0x20, 0x00, 0x00, 0x00),
	// v2, PROXY command, TCP over IPv4 (28 bytes)
	append([]byte("\r\n\r\n\x00\r\nQUIT\n"), 0x21, 0x11, 0x00, 0x0c, 192, 0, 2, 1, 192, 0, 2, 2, 0x03, 0xe8, 0x07, 0xd0),
	// v1 text header
	[]byte("PROXY TCP4 192.0.2.1 192.0.2.2 1000 2000\r\n"),
}

// useHeader makes the abstract stream start with header k.
func useHeader(k int) {
	h := ppHeaders[k]
	hdrLen = len(h)
	vapi.Assume(len(st.D)-st.base >= len(h))
	for i := range h {
		vapi.Assume(st.D[st.base+i] == h[i])
	}
}

//verif:replace! github.com/mastercactapus/proxyprotocol.Parse
func Repl_Parse(r *bufio.Reader) (proxyprotocol.Header, error) {
	n, err := r.Discard(hdrLen)
	_ = n
	if err != nil {
		return nil, err
	}
	if hdrLen == 16 {
		return proxyprotocol.HeaderV2{Command: proxyprotocol.CmdLocal}, nil
	}
	return &proxyprotocol.HeaderV1{SrcIP: net.IP{192, 0, 2, 1}, DestIP: net.IP{192, 0, 2, 2}, SrcPort: 1000, DestPort: 2000}, nil
}

// VH_proxyproto: the real PROXY-protocol handler (real bufio.Reader, parser
// replaced by "consume H bytes") after a matcher that may have buffered several
// kilobytes, then a terminal recorder: it must read D[H:].
func VH_proxyproto() {
	cx := start(vapi.Param("L", 9000))
	useHeader(vapi.Choice("header", len(ppHeaders)))
	n0 := &need{N: vapi.Int("N", 0, vapi.Param("NMAX", 6000)), V: true}
	pp := &l4proxyprotocol.Handler{}
	vapi.Assert(pp.Provision(caddy.Context{}) == nil, "provision")
	l4proxyprotocol.VerifQuiet(pp)
	rl := layer4.RouteList{route(n0, pp, recNext{rec{tag: "after-proxy-protocol"}})}
	h := rl.Compile(zap.NewNop(), 3*time.Second, rec{tag: "fallback"})
	err := h.Handle(cx)
	vapi.Log("handle", err)
	if layer4.VerifBufLen(cx) > 4096 {
		vapi.Cover("more than one bufio fill was buffered at handler time")
	}
}

// VH_tee: the real tee handler; branch and main chain are both recorders and
// must both see the whole stream from the first unconsumed byte.
func VH_tee() {
	cx := start(vapi.Param("L", 3000))
	n0 := &need{N: vapi.Int("N", 0, 2500), V: true}
	branch := rec{tag: "branch", drain: true}
	tee := l4tee.VerifNew(branch)
	rl := layer4.RouteList{route(n0, tee, recNext{rec{tag: "main"}})}
	h := rl.Compile(zap.NewNop(), 3*time.Second, rec{tag: "fallback"})
	vapi.Assert(h.Handle(cx) == nil, "Handle returned an error")
}

// VH_throttle: the throttle handler without limits is a transparent wrapper.
func VH_throttle() {
	cx := start(vapi.Param("L", 5000))
	n0 := &need{N: vapi.Int("N", 0, 3000), V: true}
	th := &l4throttle.Handler{}
	vapi.Assert(th.Provision(caddy.Context{}) == nil, "provision")
	rl := layer4.RouteList{route(n0, th, recNext{rec{tag: "after-throttle"}})}
	h := rl.Compile(zap.NewNop(), 3*time.Second, rec{tag: "fallback"})
	vapi.Assert(h.Handle(cx) == nil, "Handle returned an error")
}

// VH_echo: the echo handler writes back exactly the client's stream.
func VH_echo() {
	cx := start(vapi.Param("L", 5000))
	st.conn.MaxReads = 0
	n0 := &need{N: vapi.Int("N", 0, 3000), V: true}
	rl := layer4.RouteList{route(n0, &l4echo.Handler{})}
	ran := false
	h := rl.Compile(zap.NewNop(), 3*time.Second, layer4.HandlerFunc(func(*layer4.Connection) error { ran = true; return nil }))
	err := h.Handle(cx)
	if !ran && st.conn.EOFs > 0 && len(st.conn.Written) > 0 {
		vapi.Cover("echoed")
	}
	if err == nil && !ran && layer4.VerifBuffered(cx) == 0 && st.conn.Pos == len(st.D) {
		vapi.AssertBytesEqual(st.conn.Written, st.D, "echo did not write back the client's stream")
	}
}

// ---- handler steps from an arbitrary post-matching state ---------------------------------------
//
// Compile hands a handler a Connection whose buffer holds B (everything
// prefetched during matching, of which B[off:] is unread; off > 0 after a
// consuming non-terminal route) and whose client will still send D. Starting
// the handler from this arbitrary state covers every matching history.

func startState(maxB, maxD int) *layer4.Connection {
	st = &state{}
	B := vapi.Bytes("B", maxB)
	D := vapi.Bytes("D", maxD)
	off := 0
	if vapi.Param("OFFSET0", 0) == 0 {
		off = vapi.Int("offset", 0, maxB)
		vapi.Assume(off <= len(B))
	}
	st.conn = &env.SymConn{D: D, MaxReads: vapi.Param("ROUNDS", 6)}
	// the abstract stream the handlers must see
	st.D = append(append(make([]byte, 0, maxB+maxD), B[off:]...), D...)
	cx := layer4.WrapConnection(st.conn, nil, zap.NewNop())
	layer4.VerifSetState(cx, B, off, off, false)
	if len(B)-off > 4096 {
		vapi.Cover("more than 4096 bytes buffered")
	}
	if len(B)-off > 0 {
		vapi.Cover("bytes buffered at handler time")
	}
	return cx
}

func chain(hs ...layer4.NextHandler) layer4.Handler {
	return layer4.Handlers(hs).Compile()
}

func VH_step_rec() {
	cx := startState(10239, 6000)
	vapi.Assert(chain(recNext{rec{tag: "direct"}}).Handle(cx) == nil, "Handle returned an error")
}

func VH_step_wrap() {
	cx := startState(10239, 6000)
	vapi.Assert(chain(drainWrap{}, recNext{rec{tag: "after-wrap"}}).Handle(cx) == nil, "Handle returned an error")
}

func VH_step_proxyproto() {
	cx := startState(vapi.Param("MAXB", 10239), vapi.Param("MAXD", 6000))
	useHeader(vapi.Choice("header", len(ppHeaders)))
	pp := &l4proxyprotocol.Handler{}
	vapi.Assert(pp.Provision(caddy.Context{}) == nil, "provision")
	l4proxyprotocol.VerifQuiet(pp)
	st.base += hdrLen // the recorder must see the stream right after the header
	err := chain(pp, recNext{rec{tag: "after-proxy-protocol"}}).Handle(cx)
	vapi.Assert(err == nil, "the PROXY-protocol handler failed on a valid header")
}

// VH_pp_allow (C12): a PROXY header is accepted only from peers inside the
// allow list; everybody else is passed through untouched - same connection,
// stream intact, addresses unchanged. An accepted header's addresses are what
// later handlers see.
type addrRec struct {
	sameConn bool
	remote   string
	cx0      *layer4.Connection
	conn     net.Conn
}

func (a *addrRec) Handle(cx *layer4.Connection, next layer4.Handler) error {
	a.sameConn = cx == a.cx0
	a.remote = cx.RemoteAddr().String()
	a.conn = l4proxyprotocol.GetConn(cx)
	return next.Handle(cx)
}

// phRec reads the connection's address placeholders the way later handlers do.
type phRec struct {
	remote, local      string
	inHeader, inPeer   *layer4.MatchRemoteIP
	sawHeader, sawPeer bool
}

func (a *phRec) Handle(cx *layer4.Connection, next layer4.Handler) error {
	a.sawHeader, _ = a.inHeader.Match(cx)
	a.sawPeer, _ = a.inPeer.Match(cx)
	repl := cx.Context.Value(layer4.ReplacerCtxKey).(*caddy.Replacer)
	if v, ok := repl.Get("l4.conn.remote_addr"); ok {
		if ad, ok := v.(net.Addr); ok && ad != nil {
			a.remote = ad.String()
		}
	}
	if v, ok := repl.Get("l4.conn.local_addr"); ok {
		if ad, ok := v.(net.Addr); ok && ad != nil {
			a.local = ad.String()
		}
	}
	return next.Handle(cx)
}

// VH_pp_placeholders: after an accepted PROXY header the connection's address
// placeholders name the addresses the header declares (what later handlers and
// matchers are given), not the sender of the header.
func VH_pp_placeholders() {
	st = &state{}
	hdr := ppHeaders[1] // v2 PROXY TCP4 192.0.2.1:1000 -> 192.0.2.2:2000
	D := append(append([]byte{}, hdr...), vapi.Bytes("tail", 4)...)
	st.D = D
	st.conn = &env.SymConn{D: D, MaxReads: 4, Remote: &net.TCPAddr{IP: net.IP{10, 1, 2, 3}, Port: 5555}}
	hdrLen = len(hdr)
	cx := layer4.WrapConnection(st.conn, nil, zap.NewNop())
	pp := &l4proxyprotocol.Handler{}
	vapi.Assert(pp.Provision(caddy.Context{}) == nil, "provision")
	l4proxyprotocol.VerifQuiet(pp)
	ph := &phRec{inHeader: &layer4.MatchRemoteIP{Ranges: []string{"192.0.2.0/24"}}, inPeer: &layer4.MatchRemoteIP{Ranges: []string{"10.0.0.0/8"}}}
	vapi.Assert(ph.inHeader.Provision(caddy.Context{}) == nil && ph.inPeer.Provision(caddy.Context{}) == nil, "provision")
	// before the header is read the peer is what remote_ip sees (a route selecting the proxy_protocol handler)
	before, _ := ph.inPeer.Match(cx)
	vapi.Assert(before, "remote_ip does not see the peer before the PROXY header is accepted")
	st.base = hdrLen
	err := chain(pp, ph, recNext{rec{tag: "after-proxy-protocol"}}).Handle(cx)
	vapi.Assert(err == nil, "handler failed")
	vapi.Cover("placeholders read after the header")
	vapi.Assert(ph.remote == "192.0.2.1:1000", "placeholder l4.conn.remote_addr does not name the source address the PROXY header declares")
	vapi.Assert(ph.local == "192.0.2.2:2000", "placeholder l4.conn.local_addr does not name the destination address the PROXY header declares")
	vapi.Assert(ph.sawHeader && !ph.sawPeer, "a remote_ip matcher after the PROXY header does not see the source address the header declares")
}

func VH_pp_allow() {
	cx := startState(vapi.Param("MAXB", 200), vapi.Param("MAXD", 100))
	ip := vapi.BytesN("ip", 4)
	st.conn.Remote = &net.TCPAddr{IP: net.IP(ip), Port: 5555}
	useHeader(1) // v2 PROXY TCP4 192.0.2.1:1000 -> 192.0.2.2:2000
	var allow []string
	var allowed bool
	in10 := ip[0] == 10
	in192 := ip[0] == 192 && ip[1] == 168 && ip[2] == 1
	is172 := ip[0] == 172 && ip[1] == 16 && ip[2] == 5 && ip[3] == 7
	switch vapi.Choice("allow list", 4) {
	case 0: // nested and disjoint entries; one peer is covered by the most specific entry only
		allow, allowed = []string{"10.0.0.0/8", "192.168.1.0/24", "192.168.1.7/32", "172.16.5.7/32"}, in10 || in192 || is172
	case 1: // a single entry
		allow, allowed = []string{"10.0.0.0/8"}, in10
	case 2: // duplicates
		allow, allowed = []string{"192.168.1.0/24", "10.0.0.0/8", "192.168.1.0/24", "10.0.0.0/8"}, in10 || in192
	case 3: // a single host
		allow, allowed = []string{"172.16.5.7/32"}, is172
	}
	pp := &l4proxyprotocol.Handler{Allow: allow}
	vapi.Assert(pp.Provision(caddy.Context{}) == nil, "provision")
	l4proxyprotocol.VerifQuiet(pp)
	ar := &addrRec{cx0: cx}
	if allowed {
		st.base += hdrLen
	}
	err := chain(pp, ar, recNext{rec{tag: "after-proxy-protocol"}}).Handle(cx)
	vapi.Assert(err == nil, "handler failed")
	if allowed {
		vapi.Cover("allowed peer")
		vapi.Assert(!ar.sameConn, "an allowed peer's connection was not wrapped")
		vapi.Assert(ar.remote == "192.0.2.1:1000", "later handlers do not see the source address the header declares")
		vapi.Assert(ar.conn != nil && ar.conn.RemoteAddr().String() == "192.0.2.1:1000", "GetConn does not return the PROXY connection")
	} else {
		vapi.Cover("peer outside the allow list")
		vapi.Assert(ar.sameConn, "a peer outside the allow list was not passed through untouched")
	}
}

func VH_step_tee() {
	cx := startState(vapi.Param("MAXB", 3000), 3000)
	tee := l4tee.VerifNew(rec{tag: "branch", drain: true})
	vapi.Assert(chain(tee, recNext{rec{tag: "main"}}).Handle(cx) == nil, "Handle returned an error")
}

// VH_tee_vars: the branch and the main chain both run the real PROXY-protocol
// handler (which records its connection in the connection's variable table) at
// the same time: the table is per-connection state shared by two goroutines
// (checked in the engine's race mode).
func VH_tee_vars() {
	cx := startState(vapi.Param("MAXB", 200), vapi.Param("MAXD", 100))
	useHeader(1)
	mk := func() *l4proxyprotocol.Handler {
		pp := &l4proxyprotocol.Handler{}
		vapi.Assert(pp.Provision(caddy.Context{}) == nil, "provision")
		l4proxyprotocol.VerifQuiet(pp)
		return pp
	}
	st.base += hdrLen
	tee := l4tee.VerifNew(chain(mk(), recNext{rec{tag: "branch", drain: true}}))
	vapi.Assert(chain(tee, mk(), recNext{rec{tag: "main"}}).Handle(cx) == nil, "Handle returned an error")
	vapi.Cover("tee with handlers that set connection variables")
}

func VH_step_throttle() {
	cx := startState(10239, 6000)
	th := &l4throttle.Handler{}
	vapi.Assert(th.Provision(caddy.Context{}) == nil, "provision")
	vapi.Assert(chain(th, recNext{rec{tag: "after-throttle"}}).Handle(cx) == nil, "Handle returned an error")
}

func VH_step_echo() {
	cx := startState(vapi.Param("MAXB", 5000), 3000)
	st.conn.MaxReads = 0
	st.conn.Expect = st.D
	err := chain(&l4echo.Handler{}).Handle(cx)
	if err == nil {
		vapi.Cover("echoed")
		vapi.Assert(st.conn.WPos == len(st.D), "echo did not write back the whole stream")
	}
}

// VH_prefetch_step: one prefetch from any state appends exactly what the
// client delivered, keeps what was buffered and respects the limits.
func VH_prefetch_step() {
	B := vapi.Bytes("B", 10239)
	D := vapi.Bytes("D", 4096)
	capB := vapi.Int("cap", 0, 16384)
	vapi.Assume(capB >= len(B))
	buf := make([]byte, len(B), capB)
	copy(buf, B)
	off := vapi.Int("offset", 0, 10239)
	vapi.Assume(off <= len(B))
	conn := &env.SymConn{D: D}
	cx := layer4.WrapConnection(conn, nil, zap.NewNop())
	layer4.VerifSetState(cx, buf, off, off, false)
	err := layer4.VerifPrefetch(cx)
	nb := layer4.VerifBuf(cx)
	if len(B) >= layer4.MaxMatchingBytes {
		vapi.Cover("buffer full")
		vapi.Assert(err == layer4.ErrMatchingBufferFull && conn.Reads == 0 && len(nb) == len(B), "prefetch beyond the matching limit")
		return
	}
	vapi.Assert(conn.Reads == 1, "prefetch must read from the client exactly once")
	vapi.Assert(len(nb) == len(B)+conn.Pos, "prefetch lost or invented bytes")
	vapi.Assert(len(nb) <= layer4.MaxMatchingBytes-1+layer4.VerifPrefetchChunkSize, "matching buffer above limit + one chunk")
	vapi.AssertBytesEqual(nb[:len(B)], B, "prefetch changed already buffered bytes")
	vapi.AssertBytesEqual(nb[len(B):], D[:conn.Pos], "prefetched bytes differ from what the client sent")
	vapi.Assert(layer4.VerifOffset(cx) == off, "prefetch moved the read offset")
	// ownership: whatever prefetch gave back to the buffer pool may be handed to another
	// connection at once - scribbling over it must not change this connection's bytes
	other := layer4.VerifBufPoolGet()
	other = other[:cap(other)]
	copy(other, vapi.BytesN("junk", layer4.VerifPrefetchChunkSize))
	vapi.AssertBytesEqual(layer4.VerifBuf(cx)[len(B):], D[:conn.Pos], "the connection's matching buffer aliases a chunk that is back in the pool")
	if capB-len(B) >= layer4.VerifPrefetchChunkSize {
		vapi.Cover("read in place")
	} else {
		vapi.Cover("read through a pooled chunk")
	}
	vapi.Log("prefetch", err)
}

// VH_match_step: MatcherSet.Match freezes, lets every matcher read whatever it
// likes from the buffer, and leaves the connection exactly as it found it.
type reader struct{ n int }

func (r reader) Match(cx *layer4.Connection) (bool, error) {
	got, err := env.ReadSome(cx, 2, 12000)
	if len(got) > 0 {
		vapi.Cover("matcher read bytes")
	}
	return vapi.Bool("verdict"), err
}

func VH_match_step() {
	B := vapi.Bytes("B", 10239)
	off := vapi.Int("offset", 0, 10239)
	vapi.Assume(off <= len(B))
	conn := &env.NoReadConn{}
	cx := layer4.WrapConnection(conn, nil, zap.NewNop())
	layer4.VerifSetState(cx, B, off, 0, false)
	ms := layer4.MatcherSet{reader{}, reader{}}
	_, _ = ms.Match(cx)
	vapi.Assert(layer4.VerifOffset(cx) == off && !layer4.VerifMatching(cx), "matching left the read offset or the mode changed")
	vapi.Assert(layer4.VerifBufLen(cx) == len(B), "matching changed the buffer length")
	vapi.AssertBytesEqual(layer4.VerifBuf(cx), B, "matching changed the buffered bytes")
}

// VH_wrap_step: Wrap from any state yields a Connection that satisfies the
// representation invariant and whose reads continue the abstract stream.
func VH_wrap_step() {
	B := vapi.Bytes("B", 10239)
	D := vapi.Bytes("D", 4096)
	off := vapi.Int("offset", 0, 10239)
	vapi.Assume(off <= len(B))
	conn := &env.SymConn{D: D}
	cx := layer4.WrapConnection(conn, nil, zap.NewNop())
	layer4.VerifSetState(cx, B, off, off, false)
	w := cx.Wrap(passConn{Conn: cx, inner: cx})
	vapi.Assert(layer4.VerifOffset(w) >= 0 && layer4.VerifOffset(w) <= layer4.VerifBufLen(w), "Wrap produced a Connection whose read offset is outside its buffer")
	vapi.Assert(!layer4.VerifMatching(w), "Wrap changed the mode")
	p := make([]byte, vapi.Int("plen", 1, 12000))
	n, err := w.Read(p)
	avail := len(B) - off
	if avail > 0 {
		vapi.Cover("unread bytes at Wrap time")
		vapi.Assert(err == nil && n == vapi.Min(len(p), avail), "first read after Wrap: wrong length")
		vapi.AssertBytesEqual(p[:n], B[off:off+n], "first read after Wrap does not continue the stream")
	} else {
		vapi.Cover("drained at Wrap time")
		vapi.AssertBytesEqual(p[:n], D[:n], "first read after Wrap does not continue the stream")
	}
	// the following reads continue the stream B[off:] ++ D: nothing twice, nothing lost
	S := append(append(make([]byte, 0, 10239+4096), B[off:]...), D...)
	pos := n
	for r := 0; r < 2 && err == nil; r++ {
		q := make([]byte, vapi.Int("qlen", 1, 12000))
		var m int
		m, err = w.Read(q)
		vapi.Assert(pos+m <= len(S), "reads after Wrap returned more than the stream holds")
		vapi.AssertBytesEqual(q[:m], S[pos:pos+m], "a later read after Wrap does not continue the stream (bytes served twice or lost)")
		pos += m
	}
	if pos > avail && avail > 0 {
		vapi.Cover("read past the bytes buffered at Wrap time")
	}
}

// ---- one-step lemma over the Connection representation -----------------------------------

// VH_read_step: from any Connection state satisfying the representation
// invariant, one Read returns the next bytes of the abstract stream
// buf[offset:] ++ unread(D) and preserves the invariant.
func VH_read_step() {
	B := vapi.Bytes("B", 10240) // buffered bytes
	D := vapi.Bytes("D", 4096)  // not yet read from the network
	off := vapi.Int("offset", 0, 10240)
	vapi.Assume(off <= len(B))
	matching := vapi.Bool("matching")
	conn := &env.SymConn{D: D}
	cx := layer4.WrapConnection(conn, nil, zap.NewNop())
	layer4.VerifSetState(cx, B, off, off, matching)
	p := make([]byte, vapi.Int("plen", 0, 12000))
	n, err := cx.Read(p)
	avail := len(B) - off
	if avail > 0 {
		vapi.Cover("served from the buffer")
		vapi.Assert(err == nil && n == vapi.Min(len(p), avail), "buffered read length")
		vapi.AssertBytesEqual(p[:n], B[off:off+n], "buffered read content")
		vapi.Assert(conn.Reads == 0, "read from the network although bytes are buffered")
	} else if matching {
		vapi.Cover("matching mode, buffer consumed")
		vapi.Assert(n == 0 && err == layer4.ErrConsumedAllPrefetchedBytes && conn.Reads == 0, "matching mode must not read from the network")
	} else {
		vapi.Cover("served from the network")
		vapi.AssertBytesEqual(p[:n], D[:n], "network read content")
	}
	// invariant
	vapi.Assert(layer4.VerifOffset(cx) >= 0 && layer4.VerifOffset(cx) <= layer4.VerifBufLen(cx), "offset out of range after Read")
	if matching {
		vapi.Assert(layer4.VerifBufLen(cx) == len(B), "matching-mode Read changed the buffer")
	}
}

func init() {
	for name, f := range map[string]func(){
		"VH_core": VH_core, "VH_two_matchers": VH_two_matchers, "VH_wrap": VH_wrap, "VH_proxyproto": VH_proxyproto,
		"VH_tee": VH_tee, "VH_throttle": VH_throttle, "VH_echo": VH_echo, "VH_read_step": VH_read_step,
		"VH_step_rec": VH_step_rec, "VH_step_wrap": VH_step_wrap, "VH_step_proxyproto": VH_step_proxyproto, "VH_step_tee": VH_step_tee, "VH_tee_vars": VH_tee_vars, "VH_pp_placeholders": VH_pp_placeholders,
		"VH_step_throttle": VH_step_throttle, "VH_step_echo": VH_step_echo, "VH_wrap_step": VH_wrap_step, "VH_pp_allow": VH_pp_allow, "VH_prefetch_step": VH_prefetch_step, "VH_match_step": VH_match_step,
	} {
		vapi.Register("c01."+name, f)
	}
}
