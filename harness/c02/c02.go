// Package c02: routes run in order and only when matched; otherwise the
// fallback runs once. The real RouteList.Compile closure (and the subroute
// handler) is executed on a symbolic stream with symbolic segmentation;
// matchers are content-dependent (At{N,K}) so that "first matching route" is
// decided by the bytes. The oracle is order-independent: it only demands what
// the property states, not the evaluation order of the implementation.
package c02

import (
	"time"

	"github.com/mholt/caddy-l4/layer4"
	"github.com/mholt/caddy-l4/modules/l4subroute"
	"go.uber.org/zap"

	"verifharness/env"
	"verifharness/vapi"
)

type routeSpec struct {
	sets [][]*env.At
	kind int // 0 terminal recorder, 1 non-terminal pass-through, 2 non-terminal consumer, 3 subroute
	cons int // bytes consumed by a kind-2 handler
}

// level is one route list (0 = server routes, 1 = subroute).
type levelCfg struct{ routes []*routeSpec }

type levelState struct {
	lastRun  int
	fallback int
	entered  bool
}

// connState is the per-connection part of the oracle; route objects are shared
// between connections, so handlers consult the current connection's state.
type connState struct {
	D        []byte
	conn     *env.SymConn
	base     int // stream offset of the first byte not consumed by handlers so far
	terminal bool
	lv       [2]levelState
}

var (
	cfg [2]levelCfg
	cur *connState
)

func buffered(cx *layer4.Connection) int { return layer4.VerifBuffered(cx) }

// onRoute is called at the start of the handler chain of route j of level l.
func onRoute(l, j int, cx *layer4.Connection) {
	st := &cur.lv[l]
	vapi.Assert(!cur.terminal, "a handler ran after a terminal handler")
	vapi.Assert(st.fallback == 0, "a route handler ran after the fallback of its route list")
	vapi.Assert(j > st.lastRun, "routes ran out of order or twice")
	vapi.Assert(env.RouteTrue(cfg[l].routes[j].sets, cur.D, cur.base, buffered(cx)), "a route ran although none of its matcher sets matches the bytes received so far")
	for i := st.lastRun + 1; i < j; i++ {
		vapi.Assert(env.RouteRef(cfg[l].routes[i].sets, cur.D, cur.base, buffered(cx)) != 2, "an earlier route that matches was passed over")
	}
	st.lastRun = j
}

// onFallback is called when the end of route list l is reached.
func onFallback(l int, cx *layer4.Connection) {
	st := &cur.lv[l]
	st.fallback++
	vapi.Assert(!cur.terminal, "the fallback ran after a terminal handler")
	vapi.Assert(st.fallback == 1, "the fallback ran twice")
	for i := st.lastRun + 1; i < len(cfg[l].routes); i++ {
		vapi.Assert(env.RouteFalse(cfg[l].routes[i].sets, cur.D, cur.base, buffered(cx)), "the fallback ran although a remaining route matches or is still undecided")
	}
}

func readIntact(cx *layer4.Connection, what string) {
	got, _ := env.ReadSome(cx, vapi.Param("READS", 1), 4096)
	vapi.Assert(len(got) <= len(cur.D)-cur.base, what+" read more than the stream holds")
	vapi.AssertBytesEqual(got, cur.D[cur.base:cur.base+len(got)], what+" did not read the stream from the first unconsumed byte")
}

type handler struct{ l, j int }

func (h *handler) Handle(cx *layer4.Connection, next layer4.Handler) error {
	r := cfg[h.l].routes[h.j]
	onRoute(h.l, h.j, cx)
	vapi.Log("route", h.l, h.j, r.kind)
	switch r.kind {
	case 0:
		cur.terminal = true
		vapi.Cover("terminal route ran")
		readIntact(cx, "terminal handler")
		return nil
	case 2:
		if r.cons > 0 {
			p := make([]byte, r.cons)
			n, _ := cx.Read(p)
			vapi.AssertBytesEqual(p[:n], cur.D[cur.base:cur.base+n], "consuming handler read wrong bytes")
			cur.base += n
			vapi.Cover("non-terminal route consumed bytes")
		}
	case 3:
		cur.lv[1] = levelState{lastRun: -1, entered: true}
		vapi.Cover("subroute entered")
	}
	vapi.Cover("non-terminal route ran")
	return next.Handle(cx)
}

// afterSub sits behind the subroute handler in the same outer route: reaching
// it means the subroute fell through.
type afterSub struct{}

func (afterSub) Handle(cx *layer4.Connection, next layer4.Handler) error {
	vapi.Log("subroute-fallthrough")
	onFallback(1, cx)
	vapi.Cover("subroute fell through")
	return next.Handle(cx)
}

type fallback struct{}

func (fallback) Handle(cx *layer4.Connection) error {
	vapi.Log("fallback")
	onFallback(0, cx)
	vapi.Assert(!cur.conn.DeadlineArmed, "fallback entered with the matching deadline still armed")
	vapi.Cover("fallback ran")
	readIntact(cx, "the fallback")
	return nil
}

func mkMatcher(maxN int) *env.At {
	return &env.At{N: vapi.Int("N", 0, maxN), K: vapi.Uint8("K"), V0: vapi.Bool("V0")}
}

func mkSets() (sets [][]*env.At, lsets []layer4.MatcherSet) {
	maxN := vapi.Param("MAXN", 2)
	nsets := 1
	if vapi.Param("SETS", 1) > 1 {
		nsets = 1 + vapi.Choice("nsets", 2)
	}
	for s := 0; s < nsets; s++ {
		set := []*env.At{mkMatcher(maxN)}
		if vapi.Param("AND", 1) > 0 && vapi.Choice("and", 2) == 1 {
			set = append(set, mkMatcher(maxN))
		}
		sets = append(sets, set)
		var ms layer4.MatcherSet
		for _, m := range set {
			ms = append(ms, m)
		}
		lsets = append(lsets, ms)
	}
	return
}

func pickKind(l, j int) int {
	k := vapi.Param([]string{"KIND0", "KIND1", "KIND2", "KIND3"}[j], -1)
	if l == 1 {
		k = vapi.Param([]string{"IKIND0", "IKIND1"}[j], -1)
	}
	if k < 0 {
		k = vapi.Choice("kind", 3)
	}
	return k
}

func build(l, nRoutes int) layer4.RouteList {
	var rl layer4.RouteList
	cfg[l] = levelCfg{}
	for j := 0; j < nRoutes; j++ {
		r := &routeSpec{}
		var lsets []layer4.MatcherSet
		r.sets, lsets = mkSets()
		r.kind = pickKind(l, j)
		if r.kind == 2 {
			r.cons = vapi.Int("cons", 0, 2)
		}
		cfg[l].routes = append(cfg[l].routes, r)
		hs := []layer4.NextHandler{&handler{l: l, j: j}}
		if r.kind == 3 {
			inner := build(1, vapi.Param("IR", 1))
			hs = append(hs, l4subroute.VerifNew(inner), afterSub{})
		}
		rl = append(rl, layer4.VerifNewRoute(lsets, hs))
	}
	return rl
}

func runConn(h layer4.Handler, name string) {
	cur = &connState{}
	cur.lv[0].lastRun, cur.lv[1].lastRun = -1, -1
	cur.D = vapi.Bytes(name, vapi.Param("L", 4))
	cur.conn = &env.SymConn{D: cur.D, MaxReads: vapi.Param("ROUNDS", 4)}
	cx := layer4.WrapConnection(cur.conn, make([]byte, 0, layer4.VerifPrefetchChunkSize), zap.NewNop())
	err := h.Handle(cx)
	vapi.Assert(err == nil, "Handle returned an error")
	if !cur.terminal && cur.lv[0].fallback == 0 {
		// matching was abandoned: legitimate only if the client's stream ended
		// while some remaining route was still undecided (fail closed)
		vapi.Cover("matching aborted at end of stream")
		vapi.Assert(cur.conn.EOFs > 0, "neither a terminal route nor the fallback ran although the stream had not ended")
	}
	vapi.Log("done", cur.terminal, cur.lv[0].fallback, cur.lv[0].lastRun)
}

// VH_routes: the router on an arbitrary stream, arbitrary segmentation,
// arbitrary (bounded) route list.
func VH_routes() {
	rl := build(0, vapi.Param("R", 2))
	h := rl.Compile(zap.NewNop(), 3*time.Second, fallback{})
	runConn(h, "D")
}

// VH_subroute: a route whose handler is a nested subroute, followed by another
// route; CONNS connections go through the same provisioned handlers one after
// the other (state kept between connections must not leak).
func VH_subroute() {
	rl := build(0, vapi.Param("R", 2))
	h := rl.Compile(zap.NewNop(), 3*time.Second, fallback{})
	for c := 0; c < vapi.Param("CONNS", 2); c++ {
		runConn(h, []string{"D", "E", "F"}[c])
	}
}

func init() {
	vapi.Register("c02.VH_routes", VH_routes)
	vapi.Register("c02.VH_subroute", VH_subroute)
}
