// Package c13: the listener wrapper hands unconsumed connections over intact,
// exactly once (C13), and connections never see each other's bytes even though
// matching buffers are pooled (C08, cross-talk half). The real WrapListener /
// loop / handle / Accept / Close / pipeConnection / listenerHandler run in the
// engine's goroutine mode.
package c13

import (
	"crypto/tls"
	"io"
	"net"
	"time"

	"github.com/mholt/caddy-l4/layer4"

	"verifharness/env"
	"verifharness/vapi"
)

// baseListener yields the scripted connections, then blocks until closed.
type baseListener struct {
	conns  []*env.SymConn
	next   int
	closed chan struct{}
	nclose int
}

func (l *baseListener) Accept() (net.Conn, error) {
	if l.next < len(l.conns) {
		c := l.conns[l.next]
		l.next++
		return c, nil
	}
	<-l.closed
	return nil, net.ErrClosed
}
func (l *baseListener) Close() error {
	l.nclose++
	if l.nclose == 1 {
		close(l.closed)
	}
	return nil
}
func (l *baseListener) Addr() net.Addr { return &net.TCPAddr{IP: net.IP{10, 0, 0, 1}, Port: 443} }

// never decides "no" without reading a byte (like remote_ip / local_ip matchers).
type never struct{}

func (never) Match(cx *layer4.Connection) (bool, error) { return false, nil }

type term struct{ ran *int }

func (t term) Handle(cx *layer4.Connection, _ layer4.Handler) error {
	*t.ran++
	p := make([]byte, 8)
	_, _ = cx.Read(p)
	return nil
}

// VH_listener: k connections; a route with a content-dependent matcher and a
// terminal handler; whatever does not match falls through to the wrapped
// listener. The consumer accepts after all handlers ran (slow consumer), reads
// each delivered connection, closes the listener and accepts once more.
func VH_listener() {
	k := vapi.Param("CONNS", 2)
	var conns []*env.SymConn
	var streams [][]byte
	for i := 0; i < k; i++ {
		d := vapi.Bytes([]string{"A", "B", "C"}[i], vapi.Param("L", 3))
		streams = append(streams, d)
		conns = append(conns, &env.SymConn{D: d, MaxReads: 4, Remote: &net.TCPAddr{IP: net.IP{10, 0, 0, byte(10 + i)}, Port: 1000}})
	}
	m := &env.At{N: vapi.Int("N", 0, 2), K: vapi.Uint8("K"), V0: vapi.Bool("V0")}
	handled := 0
	rl := layer4.RouteList{layer4.VerifNewRoute([]layer4.MatcherSet{{m}}, []layer4.NextHandler{term{&handled}})}
	noRead := vapi.Param("NOREAD", 0) == 1
	if noRead {
		// every route is decided without reading: the connections fall through untouched
		rl = layer4.RouteList{layer4.VerifNewRoute([]layer4.MatcherSet{{never{}}}, []layer4.NextHandler{term{&handled}})}
	}
	lw := layer4.VerifNewListenerWrapper(rl, 3*time.Second)
	base := &baseListener{conns: conns, closed: make(chan struct{})}
	li := lw.WrapListener(base)
	vapi.Yield() // everything that can run without the consumer runs now (slow consumer)

	// which connections must come out of Accept? those whose stream ended before the
	// matcher could decide are dropped (fail closed), those that matched are consumed.
	falls := func(i int) bool { return noRead || m.Ref(streams[i], 0, len(streams[i])) == 1 }
	expect := 0
	for i := 0; i < k; i++ {
		if falls(i) {
			expect++
		}
	}
	delivered := make([]bool, k)
	for j := 0; j < expect; j++ {
		c, err := li.Accept()
		vapi.Assert(err == nil && c != nil, "a connection that fell through was not delivered to Accept")
		idx := -1
		for i := 0; i < k; i++ {
			if c.RemoteAddr().String() == conns[i].RemoteAddr().String() {
				idx = i
			}
		}
		vapi.Assert(idx >= 0, "Accept returned an unknown connection")
		vapi.Assert(!delivered[idx], "a connection was delivered twice")
		delivered[idx] = true
		vapi.Assert(falls(idx), "a connection consumed or rejected by layer4 was delivered")
		vapi.Assert(conns[idx].Closed == 0, "a delivered connection was closed by layer4")
		vapi.Assert(!conns[idx].DeadlineArmed, "a delivered connection still carries the matching deadline")
		// it reads the client's stream from the first byte (nothing was consumed)
		got := make([]byte, 0, 16)
		p := make([]byte, 8)
		for r := 0; r < 4; r++ {
			n, err := c.Read(p)
			got = append(got, p[:n]...)
			if err != nil {
				vapi.Assert(err == io.EOF, "unexpected read error on a delivered connection")
				break
			}
		}
		vapi.AssertBytesEqual(got, streams[idx], "a delivered connection does not read its own client's stream from the first byte")
		vapi.Cover("delivered and read")
	}
	for i := 0; i < k; i++ {
		if !delivered[i] {
			vapi.Assert(conns[i].Closed >= 1, "a connection consumed or rejected by layer4 was not closed")
			vapi.Cover("consumed or rejected")
		}
	}
	vapi.Assert(li.Close() == nil, "Close failed")
	vapi.Yield()
	c, err := li.Accept()
	vapi.Assert(c == nil && err == net.ErrClosed, "Accept after Close must report closure")
	vapi.Cover("closed")
}

// drainWrap consumes everything buffered so far and continues on a connection
// made with cx.Wrap (what the tls handler does after a ClientHello).
type drainWrap struct {
	conns    []*env.SymConn
	consumed []int
	tls      bool
}

func (d *drainWrap) Handle(cx *layer4.Connection, next layer4.Handler) error {
	idx := -1
	for i := range d.conns {
		if cx.RemoteAddr().String() == d.conns[i].RemoteAddr().String() {
			idx = i
		}
	}
	n := len(cx.MatchingBytes())
	p := make([]byte, n)
	m, _ := io.ReadFull(cx, p)
	d.consumed[idx] = m
	vapi.Cover("handler consumed the buffered bytes and wrapped")
	if d.tls {
		// what the tls handler records after terminating TLS (twice: TLS inside TLS)
		for _, name := range []string{"outer.example", "inner.example"} {
			var states []*tls.ConnectionState
			if v := cx.GetVar("tls_connection_states"); v != nil {
				states = v.([]*tls.ConnectionState)
			}
			cx.SetVar("tls_connection_states", append(states, &tls.ConnectionState{ServerName: name, HandshakeComplete: true}))
		}
	}
	return next.Handle(cx.Wrap(cx.Conn))
}

// VH_listener_wrap: like VH_listener, with a first route whose handler consumes
// what was buffered and continues on a wrapped connection; the second route's
// matcher then prefetches more on the wrapped connection. What falls through is
// delivered reading the client's stream from the first byte no handler consumed,
// whatever other connections do with pooled buffers in the meantime.
func VH_listener_wrap() {
	k := vapi.Param("CONNS", 2)
	var conns []*env.SymConn
	var streams [][]byte
	for i := 0; i < k; i++ {
		d := vapi.Bytes([]string{"A", "B", "C"}[i], vapi.Param("L", 4))
		streams = append(streams, d)
		conns = append(conns, &env.SymConn{D: d, MaxReads: 5, Remote: &net.TCPAddr{IP: net.IP{10, 0, 0, byte(10 + i)}, Port: 1000}})
	}
	m0 := &env.At{N: vapi.Int("N", 0, 1), K: vapi.Uint8("K"), V0: vapi.Bool("V0")}
	m1 := &env.At{N: vapi.Int("N", 0, 1), K: vapi.Uint8("K"), V0: vapi.Bool("V0")}
	handled := 0
	dw := &drainWrap{conns: conns, consumed: make([]int, k), tls: vapi.Param("TLS", 0) == 1}
	rl := layer4.RouteList{
		layer4.VerifNewRoute([]layer4.MatcherSet{{m0}}, []layer4.NextHandler{dw}),
		layer4.VerifNewRoute([]layer4.MatcherSet{{m1}}, []layer4.NextHandler{term{&handled}}),
	}
	lw := layer4.VerifNewListenerWrapper(rl, 3*time.Second)
	base := &baseListener{conns: conns, closed: make(chan struct{})}
	li := lw.WrapListener(base)
	vapi.Yield()

	falls := func(i int) bool {
		c := dw.consumed[i]
		return m1.Ref(streams[i], c, len(streams[i])-c) == 1 && m0.Ref(streams[i], 0, len(streams[i])) != 0
	}
	expect := 0
	for i := 0; i < k; i++ {
		if falls(i) {
			expect++
		}
	}
	delivered := make([]bool, k)
	for j := 0; j < expect; j++ {
		c, err := li.Accept()
		vapi.Assert(err == nil && c != nil, "a connection that fell through was not delivered to Accept")
		idx := -1
		for i := 0; i < k; i++ {
			if c.RemoteAddr().String() == conns[i].RemoteAddr().String() {
				idx = i
			}
		}
		vapi.Assert(idx >= 0, "Accept returned an unknown connection")
		vapi.Assert(!delivered[idx], "a connection was delivered twice")
		delivered[idx] = true
		vapi.Assert(falls(idx), "a connection consumed or rejected by layer4 was delivered")
		vapi.Assert(conns[idx].Closed == 0, "a delivered connection was closed by layer4")
		if dw.tls && m0.Ref(streams[idx], 0, len(streams[idx])) == 2 {
			// TLS was terminated on this connection: the innermost connection state is exposed
			cs, ok := c.(interface{ ConnectionState() tls.ConnectionState })
			vapi.Assert(ok, "a connection handed over after TLS termination does not expose its TLS connection state")
			if ok {
				st := cs.ConnectionState()
				vapi.Assert(st.ServerName == "inner.example" && st.HandshakeComplete, "the exposed TLS connection state is not the one of the last termination")
				vapi.Cover("TLS state exposed")
			}
		}
		got := make([]byte, 0, 16)
		p := make([]byte, 8)
		for r := 0; r < 5; r++ {
			n, err := c.Read(p)
			got = append(got, p[:n]...)
			if err != nil {
				vapi.Assert(err == io.EOF, "unexpected read error on a delivered connection")
				break
			}
		}
		vapi.AssertBytesEqual(got, streams[idx][dw.consumed[idx]:], "a delivered connection does not read its own client's stream from the first unconsumed byte")
		vapi.Cover("delivered and read")
		if dw.consumed[idx] > 0 {
			vapi.Cover("delivered after a handler consumed bytes")
		}
	}
	for i := 0; i < k; i++ {
		if !delivered[i] {
			vapi.Assert(conns[i].Closed >= 1, "a connection consumed or rejected by layer4 was not closed")
		}
	}
	vapi.Assert(li.Close() == nil, "Close failed")
}

// VH_close_pending: the listener is closed while fallen-through connections are
// still waiting to be accepted: every one of them is either handed out by a
// later Accept or closed - none is both, none is neither - and nothing stays blocked.
func VH_close_pending() {
	k := vapi.Param("CONNS", 2)
	var conns []*env.SymConn
	for i := 0; i < k; i++ {
		conns = append(conns, &env.SymConn{D: vapi.Bytes([]string{"A", "B", "C"}[i], 2), MaxReads: 3, Remote: &net.TCPAddr{IP: net.IP{10, 0, 0, byte(10 + i)}, Port: 1000}})
	}
	rl := layer4.RouteList{} // nothing matches: everything falls through
	lw := layer4.VerifNewListenerWrapper(rl, 3*time.Second)
	base := &baseListener{conns: conns, closed: make(chan struct{})}
	li := lw.WrapListener(base)
	vapi.Yield()
	pre := vapi.Choice("accept-before-close", k+1)
	got := 0
	for j := 0; j < pre; j++ {
		c, err := li.Accept()
		vapi.Assert(err == nil && c != nil, "pending connection not delivered")
		got++
	}
	vapi.Assert(li.Close() == nil, "Close failed")
	vapi.Yield()
	for j := 0; j < k+1; j++ {
		c, err := li.Accept()
		if err != nil {
			vapi.Assert(err == net.ErrClosed, "Accept after Close must report closure")
			break
		}
		vapi.Assert(c != nil, "nil connection")
		got++
	}
	closed := 0
	for _, c := range conns {
		closed += c.Closed
	}
	vapi.Cover("closed with pending connections")
	vapi.Assert(got+closed == k, "a pending connection was neither delivered nor closed (or both)")
}

func init() {
	vapi.Register("c13.VH_listener", VH_listener)
	vapi.Register("c13.VH_listener_wrap", VH_listener_wrap)
	vapi.Register("c13.VH_close_pending", VH_close_pending)
}
