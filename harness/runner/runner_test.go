package runner

// Native runner: executes harnesses with concrete inputs taken from solver
// models, either to replay a counterexample or to validate that the symbolic
// executor's observable trace equals the real build's.

import (
	"encoding/json"
	"flag"
	"fmt"
	"os"
	"runtime"
	"runtime/debug"
	"strings"
	"testing"

	"verifharness/vapi"

	_ "verifharness/all"
)

var casesPath = flag.String("cases", "", "JSON file with cases")
var outPath = flag.String("out", "", "JSON results file")

type Case struct {
	Harness    string                 `json:"harness"`
	Inputs     map[string]interface{} `json:"inputs"`
	Choices    []int                  `json:"choices"`
	Params     map[string]int         `json:"params"`
	AllocLimit uint64                 `json:"alloc_limit"`
	// Repeat > 1: directed repetition for counterexamples that depend on
	// math/rand draws or wall-clock phase the native run cannot pin.
	Repeat int `json:"repeat"`
}

type Result struct {
	Harness  string   `json:"harness"`
	Panic    string   `json:"panic,omitempty"`
	Stack    string   `json:"stack,omitempty"`
	Failures []string `json:"failures,omitempty"`
	Assume   string   `json:"assume_violated,omitempty"`
	Alloc    uint64   `json:"alloc_bytes,omitempty"`
	AllocHit bool     `json:"alloc_over_limit,omitempty"`
	Trace    []string `json:"trace"`
	Missing  bool     `json:"missing_harness,omitempty"`
}

func runCase(c Case) (res Result) {
	n := c.Repeat
	if n < 1 {
		n = 1
	}
	for i := 0; i < n; i++ {
		res = runOnce(c)
		if res.Panic != "" || len(res.Failures) > 0 || res.AllocHit || res.Missing {
			return
		}
	}
	return
}

func runOnce(c Case) (res Result) {
	res.Harness = c.Harness
	f := vapi.Lookup(c.Harness)
	if f == nil {
		res.Missing = true
		return
	}
	// JSON numbers arrive as float64 unless decoded with UseNumber; normalise
	vapi.SetReplay(c.Inputs, c.Choices)
	vapi.SetParams(c.Params)
	var m0, m1 runtime.MemStats
	runtime.ReadMemStats(&m0)
	func() {
		defer func() {
			if r := recover(); r != nil {
				if _, ok := vapi.IsAbort(r); ok {
					return
				}
				res.Panic = fmt.Sprint(r)
				st := string(debug.Stack())
				if len(st) > 4000 {
					st = st[:4000]
				}
				res.Stack = st
			}
		}()
		f()
	}()
	runtime.ReadMemStats(&m1)
	res.Alloc = m1.TotalAlloc - m0.TotalAlloc
	if c.AllocLimit > 0 && res.Alloc > c.AllocLimit+(1<<20) {
		res.AllocHit = true
	}
	res.Failures = vapi.Failures
	res.Assume = vapi.AssumeViolated
	res.Trace = vapi.Trace
	if res.Trace == nil {
		res.Trace = []string{}
	}
	return
}

func TestRun(t *testing.T) {
	if *casesPath == "" {
		t.Skip("no -cases")
	}
	b, err := os.ReadFile(*casesPath)
	if err != nil {
		t.Fatal(err)
	}
	var cases []Case
	dec := json.NewDecoder(strings.NewReader(string(b)))
	dec.UseNumber()
	if err := dec.Decode(&cases); err != nil {
		t.Fatal(err)
	}
	var results []Result
	for _, c := range cases {
		results = append(results, runCase(c))
	}
	out, _ := json.Marshal(results)
	if *outPath != "" {
		os.WriteFile(*outPath, out, 0o644)
	} else {
		fmt.Println(string(out))
	}
}
