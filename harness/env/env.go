// Package env holds the harness environment shared by the property packages:
// connections over symbolic streams, recorders, helpers.
package env

import (
	"net"
	"time"

	"github.com/mholt/caddy-l4/layer4"
	"go.uber.org/zap"

	"verifharness/vapi"
)

// Addr is a net.Addr with fixed strings.
type Addr struct{ Net, Str string }

func (a Addr) Network() string { return a.Net }
func (a Addr) String() string  { return a.Str }

// NoReadConn is the underlying connection of a Connection that is matched on
// pre-loaded bytes: a matcher must never read from the network.
type NoReadConn struct {
	UDP   bool
	Reads int
}

func (c *NoReadConn) Read(p []byte) (int, error) {
	c.Reads++
	vapi.Assert(false, "matcher read from the network")
	return 0, nil
}
func (c *NoReadConn) Write(p []byte) (int, error) { return len(p), nil }
func (c *NoReadConn) Close() error                { return nil }
func (c *NoReadConn) LocalAddr() net.Addr {
	if c.UDP {
		return &net.UDPAddr{IP: net.IP{10, 0, 0, 1}, Port: 53}
	}
	return &net.TCPAddr{IP: net.IP{10, 0, 0, 1}, Port: 443}
}
func (c *NoReadConn) RemoteAddr() net.Addr {
	if c.UDP {
		return &net.UDPAddr{IP: net.IP{10, 0, 0, 2}, Port: 40000}
	}
	return &net.TCPAddr{IP: net.IP{10, 0, 0, 2}, Port: 40000}
}
func (c *NoReadConn) SetDeadline(t time.Time) error      { return nil }
func (c *NoReadConn) SetReadDeadline(t time.Time) error  { return nil }
func (c *NoReadConn) SetWriteDeadline(t time.Time) error { return nil }

// MatchingConn returns a Connection in matching mode whose buffer holds d.
func MatchingConn(d []byte, udp bool) (*layer4.Connection, *NoReadConn) {
	nc := &NoReadConn{UDP: udp}
	cx := layer4.WrapConnection(nc, d, zap.NewNop())
	return cx, nc
}

// ErrClass maps a matcher error to an observable class.
func ErrClass(err error) string {
	switch {
	case err == nil:
		return "nil"
	case err == layer4.ErrConsumedAllPrefetchedBytes:
		return "needmore"
	case err == layer4.ErrMatchingBufferFull:
		return "full"
	}
	return "err"
}
