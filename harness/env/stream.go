package env

import (
	"io"
	"net"
	"os"
	"time"

	"github.com/mholt/caddy-l4/layer4"

	"verifharness/vapi"
)

// SymConn is a client connection over a byte stream D. Every Read delivers an
// arbitrary non-empty segment (the segmentation is symbolic); at the end of
// the stream it reports io.EOF, or - when Silent is set - the client goes
// quiet and the read fails with a deadline error (a slow client).
type SymConn struct {
	D        []byte
	Pos      int
	Reads    int
	MaxReads int // 0 = unlimited; otherwise a read beyond this is an unwinding failure of the harness bound
	Closed   int
	Silent   bool
	EOFs     int
	Timeouts int
	Written  []byte
	Expect   []byte // when set, every Write is checked against Expect[WPos:]
	WPos     int
	UDP      bool
	// deadline bookkeeping (C05)
	Deadlines     []time.Time
	DeadlineArmed bool
	Remote        net.Addr
	// EOFWithData: the read that delivers the last bytes also reports io.EOF
	// (allowed by io.Reader; crypto/tls does it when data and close_notify arrive together)
	EOFWithData bool
}

func (c *SymConn) Read(p []byte) (int, error) {
	c.Reads++
	if c.MaxReads > 0 && c.Reads > c.MaxReads {
		vapi.Assume(false) // beyond the harness bound on rounds: path dropped, reported via witnesses
	}
	if len(p) == 0 {
		return 0, nil
	}
	if c.Pos >= len(c.D) {
		if c.Silent {
			c.Timeouts++
			return 0, os.ErrDeadlineExceeded
		}
		c.EOFs++
		return 0, io.EOF
	}
	n := vapi.Int("seg", 1, vapi.Min(len(p), len(c.D)-c.Pos))
	copy(p[:n], c.D[c.Pos:c.Pos+n])
	c.Pos += n
	if c.EOFWithData && c.Pos == len(c.D) {
		c.EOFs++
		return n, io.EOF
	}
	return n, nil
}

func (c *SymConn) Write(p []byte) (int, error) {
	if c.Expect != nil {
		// checked per write: what is written must continue the expected stream
		vapi.Assert(len(p) <= len(c.Expect)-c.WPos, "more bytes written than expected")
		vapi.AssertBytesEqual(p, c.Expect[c.WPos:c.WPos+len(p)], "written bytes differ from the expected stream")
		c.WPos += len(p)
		return len(p), nil
	}
	c.Written = append(c.Written, p...)
	return len(p), nil
}
func (c *SymConn) Close() error { c.Closed++; return nil }
func (c *SymConn) LocalAddr() net.Addr {
	if c.UDP {
		return &net.UDPAddr{IP: net.IP{10, 0, 0, 1}, Port: 53}
	}
	return &net.TCPAddr{IP: net.IP{10, 0, 0, 1}, Port: 443}
}
func (c *SymConn) RemoteAddr() net.Addr {
	if c.Remote != nil {
		return c.Remote
	}
	return &net.TCPAddr{IP: net.IP{10, 0, 0, 2}, Port: 40000}
}
func (c *SymConn) SetDeadline(t time.Time) error { return nil }
func (c *SymConn) SetReadDeadline(t time.Time) error {
	c.Deadlines = append(c.Deadlines, t)
	c.DeadlineArmed = !t.IsZero()
	return nil
}
func (c *SymConn) SetWriteDeadline(t time.Time) error { return nil }

// At is a content-dependent matcher: it needs N bytes and matches iff the N-th
// byte (1-based, relative to the first unconsumed byte) equals K. N == 0 needs
// nothing and yields V0.
type At struct {
	N  int
	K  byte
	V0 bool
}

func (m *At) Match(cx *layer4.Connection) (bool, error) {
	if m.N == 0 {
		return m.V0, nil
	}
	b := make([]byte, m.N)
	if _, err := io.ReadFull(cx, b); err != nil {
		return false, err
	}
	return b[m.N-1] == m.K, nil
}

// Verdict3 is the reference verdict of a matcher on a stream whose first
// unconsumed byte is D[base] and of which avail bytes are buffered:
// 0 undecided (needs more), 1 false, 2 true.
func (m *At) Ref(D []byte, base, avail int) int {
	if m.N == 0 {
		if m.V0 {
			return 2
		}
		return 1
	}
	if avail < m.N {
		return 0
	}
	if D[base+m.N-1] == m.K {
		return 2
	}
	return 1
}

// SetRef is the reference verdict of a matcher set (AND, evaluated in order).
func SetRef(set []*At, D []byte, base, avail int) int {
	for _, m := range set {
		v := m.Ref(D, base, avail)
		if v != 2 {
			return v
		}
	}
	return 2
}

// RouteRef is the reference verdict of a route (OR over sets in order: the
// first set that is true or undecided decides; no sets = match).
func RouteRef(sets [][]*At, D []byte, base, avail int) int {
	if len(sets) == 0 {
		return 2
	}
	for _, s := range sets {
		v := SetRef(s, D, base, avail)
		if v != 1 {
			return v
		}
	}
	return 1
}

// Order-independent reference verdicts (what the bytes allow, regardless of the
// order in which an implementation evaluates matchers and sets):
// SetTrue: every matcher decided true; SetFalse: some matcher decided false.
func SetTrue(set []*At, D []byte, base, avail int) bool {
	for _, m := range set {
		if m.Ref(D, base, avail) != 2 {
			return false
		}
	}
	return true
}
func SetFalse(set []*At, D []byte, base, avail int) bool {
	for _, m := range set {
		if m.Ref(D, base, avail) == 1 {
			return true
		}
	}
	return false
}

// RouteTrue: some set matches (or there are no sets). RouteFalse: every set is false.
func RouteTrue(sets [][]*At, D []byte, base, avail int) bool {
	if len(sets) == 0 {
		return true
	}
	for _, s := range sets {
		if SetTrue(s, D, base, avail) {
			return true
		}
	}
	return false
}
func RouteFalse(sets [][]*At, D []byte, base, avail int) bool {
	if len(sets) == 0 {
		return false
	}
	for _, s := range sets {
		if !SetFalse(s, D, base, avail) {
			return false
		}
	}
	return true
}

// ReadSome reads up to k times with arbitrary buffer sizes (<= maxBuf) and
// returns what it got; it stops at the first error.
func ReadSome(r io.Reader, k int, maxBuf int) (out []byte, err error) {
	out = make([]byte, 0, k*maxBuf)
	for i := 0; i < k; i++ {
		sz := vapi.Int("rdsz", 1, maxBuf)
		p := make([]byte, sz)
		var n int
		n, err = r.Read(p)
		out = append(out, p[:n]...)
		if err != nil {
			return out, err
		}
	}
	return out, nil
}
