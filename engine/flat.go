package main

// One-shot ("flat") solving: the current path condition is written as a
// stand-alone script and decided by a fresh solver process. z3's incremental
// core is up to 50x slower than its one-shot pipeline on the offset/length
// arithmetic of buffer code, so a query the incremental solver cannot decide
// within its short time slice is re-decided this way before it is reported
// as unknown.

import (
	"bytes"
	"fmt"
	"os"
	"os/exec"
	"strings"
	"time"
)

type flatStats struct {
	queries, sat, unsat, unknown, byAlt int
	time                                time.Duration
}

var flat flatStats

func flatScript(conds []*Term, globals []string, getvals []*Term) string {
	var sb strings.Builder
	seen := map[*Term]bool{}
	declared := map[string]bool{}
	var visit func(t *Term)
	// iterative post-order
	visit = func(root *Term) {
		type item struct {
			t *Term
			i int
		}
		stack := []item{{root, 0}}
		for len(stack) > 0 {
			top := &stack[len(stack)-1]
			if seen[top.t] {
				stack = stack[:len(stack)-1]
				continue
			}
			if top.i < len(top.t.a) {
				c := top.t.a[top.i]
				top.i++
				if !seen[c] {
					stack = append(stack, item{c, 0})
				}
				continue
			}
			x := top.t
			stack = stack[:len(stack)-1]
			seen[x] = true
			switch x.op {
			case OpConst:
			case OpVar:
				if !declared[x.name] {
					declared[x.name] = true
					fmt.Fprintf(&sb, "(declare-const %s %s)\n", smtName(x.name), sortStr(x.w))
				}
			default:
				if x.op == OpSel && !declared["arr:"+x.name] {
					declared["arr:"+x.name] = true
					fmt.Fprintf(&sb, "(declare-const %s (Array (_ BitVec 64) (_ BitVec 8)))\n", smtName(x.name))
				}
				if x.op == OpUF && !declared["uf:"+x.name] {
					declared["uf:"+x.name] = true
					fmt.Fprintf(&sb, "(declare-fun %s %s)\n", smtName(x.name), ufDecls[x.name])
				}
				fmt.Fprintf(&sb, "(define-fun t%d () %s %s)\n", x.id, sortStr(x.w), x.body())
			}
		}
	}
	for _, c := range conds {
		visit(c)
	}
	for _, t := range getvals {
		visit(t)
	}
	for _, g := range globals {
		// constant tables: declare their array if needed
		if i := strings.Index(g, "(select "); i >= 0 {
			name := g[i+8:]
			name = name[:strings.Index(name[1:], "|")+2]
			key := "arr:" + strings.Trim(name, "|")
			if !declared[key] {
				declared[key] = true
				fmt.Fprintf(&sb, "(declare-const %s (Array (_ BitVec 64) (_ BitVec 8)))\n", name)
			}
		}
		sb.WriteString(g + "\n")
	}
	for _, c := range conds {
		if c != tTrue {
			sb.WriteString("(assert " + c.ref() + ")\n")
		}
	}
	sb.WriteString("(check-sat)\n")
	for off := 0; off < len(getvals); off += 400 {
		end := off + 400
		if end > len(getvals) {
			end = len(getvals)
		}
		sb.WriteString("(get-value (")
		for _, t := range getvals[off:end] {
			sb.WriteString(t.ref() + " ")
		}
		sb.WriteString("))\n")
	}
	return sb.String()
}

// FlatCheck decides conds one-shot. Two solvers race on the same script - z3's
// bit-blasting pipeline and cvc5's integer encoding of bit-vector arithmetic
// (--solve-bv-as-int=sum) - and the first definite answer wins: each of them
// decides in about a second queries the other one cannot decide in a minute.
func FlatCheck(bin string, conds []*Term, getvals []*Term, timeoutMs int, tag string) (SatResult, []uint64) {
	t0 := time.Now()
	defer func() { flat.time += time.Since(t0) }()
	flat.queries++
	var globals []string
	for _, g := range globalAsserts {
		globals = append(globals, g.text)
	}
	globals = append(globals, pendingGlobalAsserts...)
	script := flatScript(conds, globals, getvals)
	type answer struct {
		r    SatResult
		vals []uint64
		who  string
	}
	bins := []string{bin}
	if altFlat != "" && !strings.Contains(bin, "cvc5") {
		bins = append(bins, altFlat)
	}
	ch := make(chan answer, len(bins))
	var cmds []*exec.Cmd
	for _, b := range bins {
		f, err := os.CreateTemp(os.Getenv("SYMGO_TMP"), "flat-*.smt2")
		if err != nil {
			ch <- answer{Unknown, nil, b}
			continue
		}
		sc := script
		if strings.Contains(b, "cvc5") {
			sc = "(set-logic ALL)\n" + script
		}
		f.WriteString(sc)
		f.Close()
		secs := timeoutMs/1000 + 1
		cmd := exec.Command(b, fmt.Sprintf("-T:%d", secs), "model.completion=true", f.Name())
		if strings.Contains(b, "cvc5") {
			cmd = exec.Command(b, "--lang=smt2", "--produce-models", "--solve-bv-as-int=sum", fmt.Sprintf("--tlimit=%d", timeoutMs), f.Name())
		}
		cmds = append(cmds, cmd)
		go func(b string, cmd *exec.Cmd, fname string) {
			defer os.Remove(fname)
			var out bytes.Buffer
			cmd.Stdout = &out
			cmd.Run()
			r, vals := parseFlatAnswer(out.String(), len(getvals))
			ch <- answer{r, vals, b}
		}(b, cmd, f.Name())
	}
	res := answer{Unknown, nil, ""}
	for range bins {
		a := <-ch
		if a.r != Unknown && (len(getvals) == 0 || a.r == Unsat || a.vals != nil) {
			res = a
			break
		}
	}
	for _, c := range cmds {
		if c.Process != nil {
			c.Process.Kill()
		}
	}
	switch res.r {
	case Unsat:
		flat.unsat++
	case Sat:
		flat.sat++
	default:
		flat.unknown++
		if os.Getenv("SYMGO_KEEP_UNKNOWN") != "" {
			os.WriteFile(fmt.Sprintf("%s/unknown-%s-%d.smt2", os.Getenv("SYMGO_KEEP_UNKNOWN"), tag, flat.queries), []byte(script), 0o644)
		}
	}
	if strings.Contains(res.who, "cvc5") {
		flat.byAlt++
	}
	return res.r, res.vals
}

var altFlat string

func parseFlatAnswer(text string, nvals int) (SatResult, []uint64) {
	lines := strings.SplitN(strings.TrimSpace(text), "\n", 2)
	switch strings.TrimSpace(lines[0]) {
	case "unsat":
		return Unsat, nil
	case "sat":
		if nvals == 0 || len(lines) < 2 {
			return Sat, nil
		}
		var vals []uint64
		rest := lines[1]
		depth, start := 0, -1
		inBar := false
		for i, c := range rest {
			switch {
			case inBar:
				if c == '|' {
					inBar = false
				}
			case c == '|':
				inBar = true
			case c == '(':
				if depth == 0 {
					start = i
				}
				depth++
			case c == ')':
				depth--
				if depth == 0 && start >= 0 {
					vals = append(vals, parseValues(rest[start:i+1])...)
					start = -1
				}
			}
		}
		if len(vals) != nvals {
			return Sat, nil
		}
		return Sat, vals
	}
	return Unknown, nil
}
