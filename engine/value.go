package main

// Symbolic values and memory locations.

import (
	"fmt"
	"go/types"

	"golang.org/x/tools/go/ssa"
)

type Value interface{}

// Scalars are *Term (bit-vectors with Go's widths; Bool for bool).

type FloatV struct{ f float64 }

// StrV is an immutable string: a window of a functional array.
type StrV struct {
	arr *Arr
	off *Term
	len *Term
	// conc caches the concrete Go string when fully concrete.
	conc  string
	isCon bool
}

// ByteObj is a mutable backing store of bytes.
type ByteObj struct {
	id     int
	arr    *Arr
	cap    *Term // BV64
	maxCap uint64
	label  string
	pooled bool // currently sitting in a sync.Pool free set (ownership monitor)
}

// BSlice is a []byte (or named byte slice); obj == nil means nil slice.
type BSlice struct {
	obj           *ByteObj
	off, len, cap *Term
}

// GSlice is a slice of non-byte elements with concrete geometry.
type GSlice struct {
	arr           *ArrayLoc
	off, len, cap int
}

// Loc is an addressable location: *Cell, *StructLoc, *ArrayLoc, *ByteObj
// (pointer to byte array), BytePtr (pointer to one byte), NilLoc.
type Loc interface{}

type NilLoc struct{}

type Cell struct{ v Value }

type StructLoc struct {
	fields []Loc
	typ    types.Type
	id     int
}

type ArrayLoc struct {
	elems []Loc
	elemT types.Type
}

type BytePtr struct {
	obj *ByteObj
	idx *Term
}

// ByteView is a pointer to a byte array that aliases part of a byte object
// (result of a slice-to-array-pointer conversion).
type ByteView struct {
	obj *ByteObj
	off *Term
	n   int
}

// BArrV is a byte-array value [n]byte.
type BArrV struct {
	arr *Arr
	off *Term
	n   int
}

type StructV []Value
type ArrayV []Value
type TupleV []Value

type IfaceV struct {
	t types.Type // nil => nil interface
	v Value
}

type Closure struct {
	fn  *ssa.Function
	env []Value
}

// BuiltinV is a reference to a Go builtin used as a value (defer/go).
type BuiltinV struct{ b *ssa.Builtin }

type mapEntry struct {
	k, v Value
}

type MapObj struct {
	entries []mapEntry
	id      int
}

// Opaque is the result of an opaque stub (logger, regexp, ...). It may carry
// data for harness-level models.
type Opaque struct {
	kind string
	id   int
	data interface{}
}

var objCounter int

func nextID() int { objCounter++; return objCounter }

func isByteType(t types.Type) bool {
	b, ok := t.Underlying().(*types.Basic)
	return ok && (b.Kind() == types.Uint8 || b.Kind() == types.Byte)
}

func isByteSliceType(t types.Type) bool {
	s, ok := t.Underlying().(*types.Slice)
	return ok && isByteType(s.Elem())
}

func basicWidth(b *types.Basic) int {
	switch b.Kind() {
	case types.Bool, types.UntypedBool:
		return 0
	case types.Int8, types.Uint8:
		return 8
	case types.Int16, types.Uint16:
		return 16
	case types.Int32, types.Uint32, types.UntypedRune:
		return 32
	case types.Int, types.Uint, types.Int64, types.Uint64, types.Uintptr, types.UntypedInt:
		return 64
	}
	return -1
}

func isSigned(t types.Type) bool {
	b, ok := t.Underlying().(*types.Basic)
	return ok && b.Info()&types.IsInteger != 0 && b.Info()&types.IsUnsigned == 0
}

func isFloat(t types.Type) bool {
	b, ok := t.Underlying().(*types.Basic)
	return ok && b.Info()&types.IsFloat != 0
}

func isString(t types.Type) bool {
	b, ok := t.Underlying().(*types.Basic)
	return ok && b.Info()&types.IsString != 0
}

func mkStr(s string) StrV {
	return StrV{arr: ArrConst([]byte(s)), off: I64(0), len: I64(int64(len(s))), conc: s, isCon: true}
}

// concStr returns the concrete Go string if the value is fully concrete.
func concStr(s StrV) (string, bool) {
	if s.isCon {
		return s.conc, true
	}
	if !s.len.IsConst() || !s.off.IsConst() {
		return "", false
	}
	n := int(s.len.c)
	if n > 1<<16 {
		return "", false
	}
	b := make([]byte, n)
	for i := 0; i < n; i++ {
		t := s.arr.Select(BV(s.off.c+uint64(i), 64))
		if !t.IsConst() {
			return "", false
		}
		b[i] = byte(t.c)
	}
	return string(b), true
}

func zero(t types.Type) Value {
	switch u := t.Underlying().(type) {
	case *types.Basic:
		if u.Info()&types.IsString != 0 {
			return mkStr("")
		}
		if u.Info()&types.IsFloat != 0 {
			return FloatV{0}
		}
		if u.Kind() == types.UnsafePointer {
			return NilLoc{}
		}
		if u.Kind() == types.UntypedNil {
			return NilLoc{}
		}
		w := basicWidth(u)
		if w < 0 {
			panic(unsupported("zero of basic type " + u.String()))
		}
		if w == 0 {
			return tFalse
		}
		return BV(0, w)
	case *types.Pointer:
		return NilLoc{}
	case *types.Slice:
		if isByteType(u.Elem()) {
			return BSlice{}
		}
		return GSlice{}
	case *types.Struct:
		s := make(StructV, u.NumFields())
		for i := range s {
			s[i] = zero(u.Field(i).Type())
		}
		return s
	case *types.Array:
		if isByteType(u.Elem()) {
			return BArrV{arr: arrZero, off: I64(0), n: int(u.Len())}
		}
		a := make(ArrayV, u.Len())
		for i := range a {
			a[i] = zero(u.Elem())
		}
		return a
	case *types.Interface:
		return IfaceV{}
	case *types.Map:
		return (*MapObj)(nil)
	case *types.Chan:
		return (*ChanObj)(nil)
	case *types.Signature:
		return (*Closure)(nil)
	case *types.Tuple:
		tv := make(TupleV, u.Len())
		for i := range tv {
			tv[i] = zero(u.At(i).Type())
		}
		return tv
	}
	panic(unsupported("zero of type " + t.String()))
}

// newLoc allocates storage for a value of type t, zero-initialised.
func newLoc(t types.Type) Loc {
	switch u := t.Underlying().(type) {
	case *types.Struct:
		s := &StructLoc{fields: make([]Loc, u.NumFields()), typ: t, id: nextID()}
		for i := range s.fields {
			s.fields[i] = newLoc(u.Field(i).Type())
		}
		return s
	case *types.Array:
		if isByteType(u.Elem()) {
			return &ByteObj{id: nextID(), arr: arrZero, cap: I64(u.Len()), maxCap: uint64(u.Len())}
		}
		if u.Len() > 1<<16 {
			panic(unsupported(fmt.Sprintf("array of %d non-byte elements", u.Len())))
		}
		a := &ArrayLoc{elems: make([]Loc, u.Len()), elemT: u.Elem()}
		for i := range a.elems {
			a.elems[i] = newLoc(u.Elem())
		}
		return a
	}
	return &Cell{v: zero(t)}
}

func load(l Loc) Value {
	switch l := l.(type) {
	case *Cell:
		return l.v
	case *StructLoc:
		s := make(StructV, len(l.fields))
		for i, f := range l.fields {
			s[i] = load(f)
		}
		return s
	case *ArrayLoc:
		a := make(ArrayV, len(l.elems))
		for i, e := range l.elems {
			a[i] = load(e)
		}
		return a
	case *ByteObj:
		return BArrV{arr: l.arr, off: I64(0), n: int(l.maxCap)}
	case BytePtr:
		return l.obj.arr.Select(l.idx)
	case ByteView:
		return BArrV{arr: l.obj.arr, off: l.off, n: l.n}
	case NilLoc:
		panic(goRuntimePanic("invalid memory address or nil pointer dereference"))
	}
	panic(fmt.Sprintf("load of %T", l))
}

func store(l Loc, v Value) {
	switch l := l.(type) {
	case *Cell:
		l.v = v
	case *StructLoc:
		s := v.(StructV)
		for i, f := range l.fields {
			store(f, s[i])
		}
	case *ArrayLoc:
		a := v.(ArrayV)
		for i, e := range l.elems {
			store(e, a[i])
		}
	case *ByteObj:
		b := v.(BArrV)
		l.arr = ArrCopy(l.arr, I64(0), b.arr, b.off, I64(int64(b.n)))
	case BytePtr:
		l.obj.arr = l.obj.arr.Store(l.idx, v.(*Term))
	case ByteView:
		b := v.(BArrV)
		l.obj.arr = ArrCopy(l.obj.arr, l.off, b.arr, b.off, I64(int64(b.n)))
	case NilLoc:
		panic(goRuntimePanic("invalid memory address or nil pointer dereference"))
	default:
		panic(fmt.Sprintf("store to %T", l))
	}
}

func isNilLoc(l Value) bool {
	_, ok := l.(NilLoc)
	return ok
}

type unsupportedErr struct{ what string }

func unsupported(what string) unsupportedErr { return unsupportedErr{what} }
