package main

// Happens-before data-race detection in goroutine mode (option -race).
//
// Every interpreted goroutine carries a vector clock. Synchronisation
// operations of the Go memory model create the edges: go statement, channel
// send -> receive (and receive -> later send, over-approximated), close ->
// receive of the zero value, Mutex/RWMutex unlock -> lock, WaitGroup Done ->
// Wait, Once.Do completion -> other Do callers, sync.Pool Put -> Get, every
// sync/atomic operation on a location (acquire + release), timer start ->
// timer fire. Plain memory accesses of the interpreted program (loads and
// stores through pointers, map operations, copy/append on byte slices) are
// checked against the last conflicting accesses of other goroutines: two
// accesses to the same location, at least one a write, not both atomic, and
// not ordered by happens-before are a data race - for EVERY real scheduler,
// whatever interleaving the engine happened to run (the relation does not
// depend on the order in which unordered goroutines were executed).
//
// The happens-before relation is over-approximated where the model is
// simplified (release joins instead of replacing, all earlier receives order
// a later send), so that a reported race is a race under the Go memory model;
// races may be missed. Byte ranges that are symbolic are compared by the
// solver ("can the ranges overlap on this path?").
//
// Only accesses attributed to repository code (nearest enclosing frame of the
// repository, not a harness or shim frame) are reported.

import (
	"fmt"
	"strings"
)

type vclock []int32

func (v vclock) get(i int) int32 {
	if i < len(v) {
		return v[i]
	}
	return 0
}

func (v vclock) clone() vclock { return append(vclock(nil), v...) }

func (v *vclock) set(i int, x int32) {
	for len(*v) <= i {
		*v = append(*v, 0)
	}
	(*v)[i] = x
}

func (v *vclock) join(o vclock) {
	for i, x := range o {
		if x > v.get(i) {
			v.set(i, x)
		}
	}
}

type raceAccess struct {
	g      int
	clk    int32
	write  bool
	atomic bool
	site   string
	fn     string // attributed repository function ("" = harness / not attributable)
	lo, hi *Term  // byte ranges only
}

type raceShadow struct {
	w  *raceAccess
	rs []*raceAccess // latest read per goroutine
	ws []*raceAccess // byte objects: recent writes (ranges differ)
}

type raceDet struct {
	shadow map[interface{}]*raceShadow
	syncs  map[interface{}]vclock
	seen   map[string]bool
}

func newRaceDet() *raceDet {
	return &raceDet{shadow: map[interface{}]*raceShadow{}, syncs: map[interface{}]vclock{}, seen: map[string]bool{}}
}

var raceMode bool

func (in *Interp) raceOn() bool {
	return in.race != nil && in.sched != nil && len(in.sched.gs) > 1
}

func (in *Interp) gvc() *vclock {
	g := in.curG
	if g.vc == nil {
		g.vc = vclock{}
		g.vc.set(g.id, 1)
	}
	return &g.vc
}

// raceFork: the go statement happens before the start of the new goroutine.
func (in *Interp) raceFork(child *G) {
	if in.race == nil {
		return
	}
	if in.forkVC != nil {
		// a timer callback: its parent in the happens-before order is the goroutine that armed the
		// timer, not whichever goroutine the scheduler was running when it fired
		child.vc = in.forkVC.clone()
		child.vc.set(child.id, 1)
		in.forkVC = nil
		return
	}
	p := in.gvc()
	child.vc = p.clone()
	child.vc.set(child.id, 1)
	p.set(in.curG.id, p.get(in.curG.id)+1)
}

func (in *Interp) raceAcquire(key interface{}) {
	if in.race == nil {
		return
	}
	if vc, ok := in.race.syncs[key]; ok {
		in.gvc().join(vc)
	}
}

func (in *Interp) raceRelease(key interface{}) {
	if in.race == nil {
		return
	}
	me := in.gvc()
	vc := in.race.syncs[key]
	vc.join(*me)
	in.race.syncs[key] = vc
	me.set(in.curG.id, me.get(in.curG.id)+1)
}

// raceSnapshot returns the current goroutine's clock (for messages) and ticks it.
func (in *Interp) raceSnapshot() vclock {
	if in.race == nil {
		return nil
	}
	me := in.gvc()
	s := me.clone()
	me.set(in.curG.id, me.get(in.curG.id)+1)
	return s
}

func (in *Interp) raceAcquireVC(vc vclock) {
	if in.race == nil || vc == nil {
		return
	}
	in.gvc().join(vc)
}

// attribute finds the function the access is charged to.
func (in *Interp) attribute() string {
	st := in.e.callStack
	for i := len(st) - 1; i >= 0; i-- {
		f := st[i]
		if strings.Contains(f, "verifharness/") {
			return ""
		}
		if strings.Contains(f, "github.com/mholt/caddy-l4/") {
			if strings.Contains(f, ".Verif") || strings.Contains(f, ")Verif") {
				return ""
			}
			return f
		}
	}
	return ""
}

func (in *Interp) ordered(a *raceAccess) bool {
	if a.g == in.curG.id {
		return true
	}
	return a.clk <= in.gvc().get(a.g)
}

func (in *Interp) raceReport(prev, cur *raceAccess, what string) {
	if prev.fn == "" || cur.fn == "" {
		return
	}
	k := func(a *raceAccess) string {
		s := "read"
		if a.write {
			s = "write"
		}
		if a.atomic {
			s = "atomic " + s
		}
		return s + " at " + a.site
	}
	a, b := k(prev), k(cur)
	if b < a {
		a, b = b, a
	}
	label := "data race on " + what + ": " + a + " and " + b + " are not ordered by happens-before"
	if in.race.seen[label] {
		return
	}
	in.race.seen[label] = true
	in.e.Report("race", label, cur.site, fmt.Sprintf("goroutines %d and %d", prev.g, cur.g))
}

// raceCell checks and records a plain or atomic access to one memory cell / map object.
func (in *Interp) raceCell(key interface{}, write, atomic bool, site, what string) {
	sh := in.race.shadow[key]
	if sh == nil {
		sh = &raceShadow{}
		in.race.shadow[key] = sh
	}
	me := in.gvc()
	cur := &raceAccess{g: in.curG.id, clk: me.get(in.curG.id), write: write, atomic: atomic, site: site, fn: in.attribute()}
	if sh.w != nil && !(atomic && sh.w.atomic) && !in.ordered(sh.w) {
		in.raceReport(sh.w, cur, what)
	}
	if write {
		for _, r := range sh.rs {
			if !(atomic && r.atomic) && !in.ordered(r) {
				in.raceReport(r, cur, what)
			}
		}
		sh.w = cur
		sh.rs = sh.rs[:0]
		return
	}
	for i, r := range sh.rs {
		if r.g == cur.g {
			sh.rs[i] = cur
			return
		}
	}
	sh.rs = append(sh.rs, cur)
}

func describeLoc(l Loc) string {
	switch l.(type) {
	case *Cell:
		return "a variable or field"
	case BytePtr, *ByteObj, ByteView:
		return "the bytes of a buffer"
	}
	return "memory"
}

// raceLoc walks a location (struct and array locations are accessed field by field).
func (in *Interp) raceLoc(l Loc, write bool, site string) {
	if !in.raceOn() {
		return
	}
	switch l := l.(type) {
	case *Cell:
		in.raceCell(l, write, false, site, "a variable or field")
	case *StructLoc:
		for _, f := range l.fields {
			in.raceLoc(f, write, site)
		}
	case *ArrayLoc:
		for _, e := range l.elems {
			in.raceLoc(e, write, site)
		}
	case BytePtr:
		in.raceBytes(l.obj, l.idx, Add(l.idx, I64(1)), write, site)
	case *ByteObj:
		in.raceBytes(l, I64(0), l.cap, write, site)
	case ByteView:
		in.raceBytes(l.obj, l.off, Add(l.off, I64(int64(l.n))), write, site)
	}
}

func (in *Interp) raceAtomic(l Loc, write bool, site string) {
	if in.race == nil {
		return
	}
	in.raceAcquire(l)
	if in.raceOn() {
		if c, ok := l.(*Cell); ok {
			in.raceCell(c, write, true, site, "a variable or field")
		}
	}
	in.raceRelease(l)
}

func (in *Interp) raceMap(m *MapObj, write bool, site string) {
	if !in.raceOn() || m == nil {
		return
	}
	in.raceCell(m, write, false, site, "a map")
}

// raceBytes checks an access to obj[lo:hi).
func (in *Interp) raceBytes(obj *ByteObj, lo, hi *Term, write bool, site string) {
	if !in.raceOn() || obj == nil {
		return
	}
	if lo.IsConst() && hi.IsConst() && lo.c >= hi.c {
		return
	}
	sh := in.race.shadow[obj]
	if sh == nil {
		sh = &raceShadow{}
		in.race.shadow[obj] = sh
	}
	me := in.gvc()
	cur := &raceAccess{g: in.curG.id, clk: me.get(in.curG.id), write: write, site: site, fn: in.attribute(), lo: lo, hi: hi}
	conflict := func(prev *raceAccess) {
		if in.ordered(prev) || prev.fn == "" || cur.fn == "" {
			return
		}
		overlap := And(Ult(prev.lo, cur.hi), Ult(cur.lo, prev.hi))
		if overlap == tFalse {
			return
		}
		if overlap != tTrue {
			if in.e.check(overlap) != Sat {
				return
			}
		}
		in.raceReport(prev, cur, "the bytes of a buffer")
	}
	for _, w := range sh.ws {
		conflict(w)
	}
	if write {
		for _, r := range sh.rs {
			conflict(r)
		}
	}
	keep := func(list []*raceAccess) []*raceAccess {
		// one entry per goroutine and site is enough (the newest clock dominates)
		for i, a := range list {
			if a.g == cur.g && a.site == cur.site {
				list[i] = cur
				return list
			}
		}
		if len(list) >= 64 {
			list = list[1:]
		}
		return append(list, cur)
	}
	if write {
		sh.ws = keep(sh.ws)
	} else {
		sh.rs = keep(sh.rs)
	}
}

func (in *Interp) raceSlice(v Value, write bool, site string) {
	if !in.raceOn() {
		return
	}
	switch s := v.(type) {
	case BSlice:
		if s.obj != nil {
			in.raceBytes(s.obj, s.off, Add(s.off, s.len), write, site)
		}
	case GSlice:
		if s.arr != nil {
			for i := 0; i < s.len; i++ {
				in.raceLoc(s.arr.elems[s.off+i], write, site)
			}
		}
	}
}

// raceCopy: copy(dst, src) writes dst[:n] and reads src[:n], n = min(len(dst), len(src)).
func (in *Interp) raceCopy(dst, src Value, site string) {
	if !in.raceOn() {
		return
	}
	d, ok := dst.(BSlice)
	if !ok {
		in.raceSlice(src, false, site)
		in.raceSlice(dst, true, site)
		return
	}
	var slen *Term
	switch s := src.(type) {
	case BSlice:
		slen = s.len
		if s.obj != nil {
			n := Min(d.len, slen, false)
			in.raceBytes(s.obj, s.off, Add(s.off, n), false, site)
		}
	case StrV:
		slen = s.len
	default:
		return
	}
	if d.obj != nil {
		n := Min(d.len, slen, false)
		in.raceBytes(d.obj, d.off, Add(d.off, n), true, site)
	}
}

// raceAppend: append(dst, src...) reads src and (when it fits) writes dst[len:len+n] in place.
func (in *Interp) raceAppend(dst, src Value, site string) {
	if !in.raceOn() {
		return
	}
	in.raceSlice(src, false, site)
	if d, ok := dst.(BSlice); ok && d.obj != nil {
		var slen *Term
		switch s := src.(type) {
		case BSlice:
			slen = s.len
		case StrV:
			slen = s.len
		default:
			return
		}
		// the write happens in place only if the capacity suffices; reporting it otherwise would be a
		// false alarm, so the range is clipped to the capacity
		end := Min(Add(d.len, slen), d.cap, false)
		in.raceBytes(d.obj, Add(d.off, d.len), Add(d.off, end), true, site)
	}
}
