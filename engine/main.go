package main

import (
	"crypto/sha256"
	"encoding/hex"
	"encoding/json"
	"flag"
	"fmt"
	"go/types"
	"os"
	"os/exec"
	"runtime/debug"
	"runtime/pprof"
	"sort"
	"strings"
	"time"

	"golang.org/x/tools/go/packages"
	"golang.org/x/tools/go/ssa"
	"golang.org/x/tools/go/ssa/ssautil"
)

type multiFlag []string

func (m *multiFlag) String() string     { return strings.Join(*m, ",") }
func (m *multiFlag) Set(s string) error { *m = append(*m, s); return nil }

type HarnessResult struct {
	Harness       string            `json:"harness"`
	Paths         int               `json:"paths"`
	OkPaths       int               `json:"ok_paths"`
	Infeasible    int               `json:"infeasible_paths"`
	Decisions     int               `json:"decisions"`
	Queries       int               `json:"queries"`
	QSat          int               `json:"queries_sat"`
	QUnsat        int               `json:"queries_unsat"`
	QUnknown      int               `json:"queries_unknown"`
	FlatQueries   int               `json:"queries_one_shot"`
	FlatByCvc5    int               `json:"queries_one_shot_decided_by_cvc5"`
	SolverTimeS   float64           `json:"solver_time_s"`
	WallS         float64           `json:"wall_s"`
	Steps         int64             `json:"ssa_steps"`
	Violations    []Violation       `json:"violations"`
	Inconclusive  []string          `json:"inconclusive"`
	Covers        map[string]int    `json:"covers"`
	Traces        []TraceRec        `json:"traces"`
	Samples       []TraceRec        `json:"samples"`
	Functions     []string          `json:"functions_encoded"`
	FuncHashes    map[string]string `json:"repo_file_hashes,omitempty"`
	Intrinsics    []string          `json:"intrinsics"`
	Stubs         []string          `json:"stubs"`
	Assumptions   []string          `json:"assumptions"`
	Summarised    []string          `json:"summarised_pure_callees"`
	ForkSites     map[string]int    `json:"fork_sites,omitempty"`
	Unvalidatable int               `json:"paths_not_natively_validatable"`
	Exhaustive    bool              `json:"exhaustive"`
	Unwind        int               `json:"unwind"`
	Terms         int               `json:"terms"`
}

var execInitPkgs = map[string]bool{
	"io": true, "bufio": true, "bytes": true, "errors": true, "time": true, "encoding/binary": true,
	"context": true, "net/netip": true, "slices": true, "unicode/utf8": true, "math/bits": true,
	"strings": true, "unicode": false, "internal/byteorder": true, "internal/bytealg": false,
	"golang.org/x/crypto/cryptobyte": true, "golang.org/x/crypto/cryptobyte/asn1": true,
	"github.com/things-go/go-socks5": true, "github.com/things-go/go-socks5/statute": true,
	"github.com/mastercactapus/proxyprotocol": true, "github.com/miekg/dns": true, "internal/itoa": true, "internal/stringslite": true,
	"math": true, "sort": true, "strconv": true, "internal/poll": false, "crypto/tls": false,
	"hash/fnv": true, "internal/godebug": false, "cmp": true, "iter": true, "maps": true,
	"container/list": true, "io/fs": false, "net": false, "sync": false, "sync/atomic": true,
	"golang.org/x/time/rate": true, "encoding/hex": true, "encoding/base64": true, "encoding/base32": true, "unique": false,
}

func main() {
	var (
		dir        = flag.String("dir", "/verif/harness", "harness module directory")
		overlay    = flag.String("overlay", "", "overlay JSON ({\"Replace\":{virtual:real}})")
		out        = flag.String("out", "", "result JSON path (default stdout)")
		solverBin  = flag.String("solver", "z3-new", "solver binary")
		timeoutMs  = flag.Int("timeout-ms", 20000, "per-query timeout")
		unwind     = flag.Int("unwind", 64, "per-frame visits of a symbolic branch")
		allocLim   = flag.Uint64("alloc-limit", 0, "make([]byte) size treated as an allocation outcome (0 = off)")
		maxPaths   = flag.Int("max-paths", 0, "stop after this many paths (0 = unlimited); stopping early is reported as non-exhaustive")
		budgetS    = flag.Int("budget-s", 0, "time budget per harness in seconds (0 = none)")
		preempt    = flag.Int("preempt", 0, "pre-emption budget per path")
		nTraces    = flag.Int("traces", 50, "number of passing paths whose models are emitted for native validation")
		traceEv    = flag.Int("trace-every", 1, "emit a trace for every k-th passing path")
		smtLog     = flag.String("smt-log", "", "write solver input to this file")
		raceFlag   = flag.Bool("race", false, "happens-before data-race detection in goroutine mode")
		poolAdv    = flag.Bool("pool-adversarial", false, "sync.Pool.Get may return any pooled object or a fresh one")
		verbose    = flag.Bool("v", false, "verbose")
		jobsFile   = flag.String("jobs", "", "JSON list of harness jobs (per-harness options)")
		flatSolver = flag.String("flat-solver", "", "solver for one-shot re-decisions (default: same as -solver; cvc5 = integer encoding of bit-vectors)")
		incTimeout = flag.Int("inc-timeout-ms", 2500, "time slice of the incremental solver before a query is re-decided one-shot")
		pkgs       multiFlag
		harnesses  multiFlag
		paramFl    multiFlag
	)
	flag.Var(&pkgs, "pkg", "package pattern to load (repeatable)")
	flag.Var(&harnesses, "harness", "pkgpath.Func entry (repeatable)")
	flag.Var(&paramFl, "param", "harness bound parameter name=int (repeatable)")
	cpuprof := flag.String("cpuprofile", "", "write cpu profile")
	flag.Parse()
	if *cpuprof != "" {
		f, _ := os.Create(*cpuprof)
		pprof.StartCPUProfile(f)
	}
	debug.SetGCPercent(400)
	for _, p := range paramFl {
		kv := strings.SplitN(p, "=", 2)
		if len(kv) == 2 {
			var v int
			fmt.Sscan(kv[1], &v)
			cliParams[kv[0]] = v
		}
	}

	t0 := time.Now()
	cfg := &packages.Config{Mode: packages.LoadAllSyntax, Dir: *dir, Env: append(os.Environ(), "GOFLAGS=-mod=mod", "GOPROXY=off", "GOSUMDB=off", "GOTOOLCHAIN=local")}
	if *overlay != "" {
		b, err := os.ReadFile(*overlay)
		if err != nil {
			fatal("overlay: %v", err)
		}
		var ov struct{ Replace map[string]string }
		if err := json.Unmarshal(b, &ov); err != nil {
			fatal("overlay: %v", err)
		}
		cfg.Overlay = map[string][]byte{}
		for virt, real := range ov.Replace {
			c, err := os.ReadFile(real)
			if err != nil {
				fatal("overlay file: %v", err)
			}
			cfg.Overlay[virt] = c
		}
	}
	loaded, err := packages.Load(cfg, pkgs...)
	if err != nil {
		fatal("load: %v", err)
	}
	nerr := 0
	packages.Visit(loaded, nil, func(p *packages.Package) {
		for _, e := range p.Errors {
			if nerr < 20 {
				fmt.Fprintf(os.Stderr, "LOADERR %s: %v\n", p.PkgPath, e)
			}
			nerr++
		}
	})
	if nerr > 0 {
		fmt.Println("INCONCLUSIVE reason=harness-does-not-typecheck")
		os.Exit(2)
	}
	prog, _ := ssautil.AllPackages(loaded, ssa.InstantiateGenerics|ssa.SanityCheckFunctions&0)
	if *verbose {
		fmt.Fprintf(os.Stderr, "loaded in %.1fs\n", time.Since(t0).Seconds())
	}
	built := map[*ssa.Package]bool{}
	buildPkg := func(p *ssa.Package) {
		if p != nil && !built[p] {
			built[p] = true
			p.Build()
		}
	}
	// build everything lazily is not possible per function; build all packages that have syntax (bodies on demand is per package)
	for _, p := range prog.AllPackages() {
		path := p.Pkg.Path()
		if strings.HasPrefix(path, "github.com/mholt/caddy-l4") || strings.HasPrefix(path, "verifharness") || execInitPkgs[path] {
			buildPkg(p)
		}
	}

	poolAdversarial = *poolAdv
	var results []HarnessResult
	exit := 0
	type job struct {
		Harness         string         `json:"harness"`
		Params          map[string]int `json:"params"`
		Unwind          int            `json:"unwind"`
		AllocLimit      uint64         `json:"alloc_limit"`
		Preempt         int            `json:"preempt"`
		PoolAdversarial bool           `json:"pool_adversarial"`
		BudgetS         int            `json:"budget_s"`
		MaxPaths        int            `json:"max_paths"`
		Traces          int            `json:"traces"`
		TraceEvery      int            `json:"trace_every"`
		TimeoutMs       int            `json:"timeout_ms"`
		NoSummaries     bool           `json:"no_summaries"`
		Race            bool           `json:"race"`
	}
	if *jobsFile != "" {
		b, err := os.ReadFile(*jobsFile)
		if err != nil {
			fatal("jobs: %v", err)
		}
		var jobs []job
		if err := json.Unmarshal(b, &jobs); err != nil {
			fatal("jobs: %v", err)
		}
		for _, j := range jobs {
			i := strings.LastIndex(j.Harness, ".")
			pkg := prog.ImportedPackage(j.Harness[:i])
			if pkg == nil {
				fatal("harness package %s not loaded", j.Harness[:i])
			}
			fn := pkg.Func(j.Harness[i+1:])
			if fn == nil {
				fatal("harness %s not found", j.Harness)
			}
			cliParams = map[string]int{}
			for k, v := range j.Params {
				cliParams[k] = v
			}
			poolAdversarial = j.PoolAdversarial
			o := runOpts{solver: *solverBin, timeoutMs: *timeoutMs, unwind: *unwind, allocLimit: j.AllocLimit, maxPaths: j.MaxPaths,
				budgetS: j.BudgetS, preempt: j.Preempt, nTraces: *nTraces, traceEvery: *traceEv, verbose: *verbose, noSummaries: j.NoSummaries || j.Race, race: j.Race, incTimeoutMs: *incTimeout, flatSolver: *flatSolver}
			if j.Unwind > 0 {
				o.unwind = j.Unwind
			}
			if j.Traces > 0 {
				o.nTraces = j.Traces
			}
			if j.TraceEvery > 0 {
				o.traceEvery = j.TraceEvery
			}
			if j.TimeoutMs > 0 {
				o.timeoutMs = j.TimeoutMs
			}
			res := runHarness(prog, buildPkg, fn, j.Harness, o)
			results = append(results, res)
			// write incrementally so a killed process still leaves what it finished
			if *out != "" {
				bb, _ := json.MarshalIndent(results, "", " ")
				os.WriteFile(*out, bb, 0o644)
			}
		}
	}
	for _, h := range harnesses {
		i := strings.LastIndex(h, ".")
		pkgPath, fname := h[:i], h[i+1:]
		pkg := prog.ImportedPackage(pkgPath)
		if pkg == nil {
			fatal("harness package %s not loaded", pkgPath)
		}
		fn := pkg.Func(fname)
		if fn == nil {
			fatal("harness %s not found", h)
		}
		res := runHarness(prog, buildPkg, fn, h, runOpts{solver: *solverBin, timeoutMs: *timeoutMs, unwind: *unwind, allocLimit: *allocLim,
			maxPaths: *maxPaths, budgetS: *budgetS, preempt: *preempt, nTraces: *nTraces, traceEvery: *traceEv, smtLog: *smtLog, verbose: *verbose, incTimeoutMs: *incTimeout, flatSolver: *flatSolver, race: *raceFlag, noSummaries: *raceFlag})
		results = append(results, res)
		if len(res.Violations) > 0 {
			exit = 1
		} else if len(res.Inconclusive) > 0 && exit == 0 {
			exit = 2
		}
	}
	b, _ := json.MarshalIndent(results, "", " ")
	if *out != "" {
		os.WriteFile(*out, b, 0o644)
	} else {
		os.Stdout.Write(b)
	}
	if *cpuprof != "" {
		pprof.StopCPUProfile()
	}
	os.Exit(exit)
}

func fatal(f string, a ...interface{}) {
	fmt.Fprintf(os.Stderr, "symgo: "+f+"\n", a...)
	fmt.Println("INCONCLUSIVE reason=engine-setup")
	os.Exit(2)
}

type runOpts struct {
	solver       string
	timeoutMs    int
	unwind       int
	allocLimit   uint64
	maxPaths     int
	budgetS      int
	preempt      int
	nTraces      int
	traceEvery   int
	smtLog       string
	verbose      bool
	noSummaries  bool
	race         bool
	incTimeoutMs int
	flatSolver   string
}

func runHarness(prog *ssa.Program, buildPkg func(*ssa.Package), fn *ssa.Function, name string, o runOpts) HarnessResult {
	t0 := time.Now()
	args := []string{"-in"}
	if strings.Contains(o.solver, "cvc5") {
		// integer encoding of bit-vector arithmetic (mod 2^k semantics preserved): decides
		// the offset/length arithmetic of buffer code that stalls a bit-blaster
		args = []string{"--incremental", "--lang=smt2", "--produce-models", "--solve-bv-as-int=sum",
			fmt.Sprintf("--tlimit-per=%d", o.timeoutMs)}
	}
	incTimeout := o.timeoutMs
	if strings.Contains(o.solver, "z3") && incTimeout > o.incTimeoutMs {
		incTimeout = o.incTimeoutMs
	}
	solver, err := NewSolver(o.solver, args, incTimeout, o.smtLog)
	if err != nil {
		fatal("solver: %v", err)
	}
	defer solver.Close()
	// reset global term state between harnesses (solver is fresh)
	termTab = map[string]*Term{}
	termList = nil
	varRanges = map[string][2]uint64{}
	ufDecls = map[string]string{}
	arrDecls = map[string]bool{}
	constTables = map[*Arr]string{}
	pendingGlobalAsserts = nil
	globalAsserts = nil
	tTrue = mk(OpConst, 0, 1, "")
	tFalse = mk(OpConst, 0, 0, "")

	e := NewEngine(solver)
	if strings.Contains(o.solver, "z3") {
		e.flatBin = o.solver
		if o.flatSolver != "" {
			e.flatBin = o.flatSolver
		}
		e.flatTimeoutMs = o.timeoutMs
		if _, err := exec.LookPath("cvc5"); err == nil && !strings.Contains(e.flatBin, "cvc5") {
			altFlat = "cvc5"
		}
	}
	flat = flatStats{}
	e.unwind = o.unwind
	e.allocLimit = o.allocLimit
	e.maxTraces = o.nTraces
	e.traceEvery = o.traceEvery
	if o.budgetS > 0 {
		e.deadline = t0.Add(time.Duration(o.budgetS) * time.Second)
	}
	in := &Interp{prog: prog, e: e, fset: prog.Fset, replace: map[string]*ssa.Function{}, replaceCompat: map[string]bool{}, buildPkg: buildPkg}
	in.execInit = func(p *ssa.Package) bool {
		path := p.Pkg.Path()
		ok := strings.HasPrefix(path, "github.com/mholt/caddy-l4") || strings.HasPrefix(path, "verifharness") || execInitPkgs[path]
		if ok {
			buildPkg(p)
		}
		return ok
	}
	if ep := prog.ImportedPackage("errors"); ep != nil {
		in.errStrT = types.NewPointer(ep.Type("errorString").Type())
	}
	in.opaqueT = types.NewNamed(types.NewTypeName(0, nil, "verif.opaque", nil), types.NewStruct(nil, nil), nil)
	in.harnessPkg = fn.Pkg.Pkg.Path()
	in.noSummaries = o.noSummaries
	// harness replacements: functions named Repl_<anything> with a doc marker are bound via the
	// package-level map "Replacements" (map[string]any of callee name -> func)
	bindReplacements(in, fn.Pkg)

	exhaustive := true
	budgetHit := false
	for {
		e.beginPath()
		in.resetPath()
		in.race = nil
		if o.race {
			in.race = newRaceDet()
		}
		resetSync()
		recvWaiting = map[*G][]*ChanObj{}
		outcome := in.runPath(func() {
			in.preInit(fn.Pkg)
			in.callFunction(nil, fn, nil, nil, "entry")
		}, o.preempt)
		status := "ok"
		switch oc := outcome.(type) {
		case nil:
		case pathEnd:
			status = oc.outcome
			switch oc.outcome {
			case "unwind":
				e.addInconclusive("unwinding bound " + fmt.Sprint(e.unwind) + " exceeded at " + oc.detail)
			case "budget":
				budgetHit = true
			}
		case targetPanic:
			status = "violation"
			if e.depth >= len(e.stack) {
				detail := oc.runtime
				if detail == "" {
					detail = "panic(" + describeValue(oc.v) + ")"
				}
				func() {
					defer func() { recover() }()
					e.Fail("panic", "go-panic: "+detail, oc.site, detail)
				}()
			}
		case deadlockOutcome:
			status = "violation"
			func() {
				defer func() { recover() }()
				e.Fail("deadlock", "deadlock", strings.Join(oc.blocked, "; "), "all goroutines blocked")
			}()
		case unsupportedErr:
			status = "unsupported"
			cs := e.callStack
			if len(cs) > 5 {
				cs = cs[len(cs)-5:]
			}
			e.addInconclusive("unsupported: " + oc.what + " [stack: " + strings.Join(cs, " > ") + "]")
		default:
			status = "bug"
			e.addInconclusive(fmt.Sprintf("engine error: %v", oc))
			if o.verbose {
				fmt.Fprintf(os.Stderr, "engine error: %v\n%s\n", oc, strings.Join(e.callStack, "\n"))
			}
		}
		if status == "ok" && e.pathUnknown {
			status = "unknown"
		}
		e.finishPath(status)
		if o.verbose && e.paths%200 == 0 {
			fmt.Fprintf(os.Stderr, "[%s] paths=%d decisions=%d queries=%d t=%.0fs\n", name, e.paths, e.decisionsTotal, solver.queries, time.Since(t0).Seconds())
		}
		if len(solver.errs) > 0 {
			e.addInconclusive("solver error: " + solver.errs[0])
			exhaustive = false
			break
		}
		if budgetHit {
			exhaustive = false
			e.addInconclusive("time budget exhausted before the decision tree was explored")
			break
		}
		if o.maxPaths > 0 && e.paths >= o.maxPaths {
			exhaustive = false
			e.addInconclusive(fmt.Sprintf("path limit %d reached before the decision tree was explored", o.maxPaths))
			break
		}
		if status == "bug" {
			exhaustive = false
			break
		}
		if !e.backtrack() {
			break
		}
	}
	res := HarnessResult{Harness: name, Paths: e.paths, OkPaths: e.okPaths, Infeasible: e.infeasiblePaths, Decisions: e.decisionsTotal,
		Queries: solver.queries + flat.queries, QSat: solver.nSat + flat.sat, QUnsat: solver.nUnsat + flat.unsat, QUnknown: solver.nUnknown,
		FlatQueries: flat.queries, FlatByCvc5: flat.byAlt,
		SolverTimeS: solver.solveTime.Seconds() + solver.syncTime.Seconds() + flat.time.Seconds(), WallS: time.Since(t0).Seconds(), Steps: in.steps,
		Violations: e.violations, Inconclusive: e.inconclusive, Covers: e.covers, Traces: e.traces, Samples: e.samples,
		Functions: sortedKeys(e.funcsExecuted), Intrinsics: sortedKeys(e.intrinsicsHit), Stubs: sortedKeys(e.stubsHit),
		Assumptions: sortedKeys(e.assumptions), Summarised: sortedKeys(e.summarised), Exhaustive: exhaustive && len(e.inconclusive) == 0, Unwind: e.unwind, Terms: len(termList)}
	res.FuncHashes = repoFileHashes(prog, e.funcsExecuted)
	res.ForkSites = topSites(e.siteHist, 12)
	res.Unvalidatable = e.unvalidatable
	if res.Violations == nil {
		res.Violations = []Violation{}
	}
	if res.Inconclusive == nil {
		res.Inconclusive = []string{}
	}
	return res
}

func describeValue(v Value) string {
	switch x := v.(type) {
	case IfaceV:
		if x.t == nil {
			return "nil"
		}
		if s, ok := x.v.(StrV); ok {
			if c, ok := concStr(s); ok {
				return c
			}
		}
		return x.t.String()
	}
	return fmt.Sprintf("%T", v)
}

func repoFileHashes(prog *ssa.Program, fns map[string]bool) map[string]string {
	files := map[string]bool{}
	for _, p := range prog.AllPackages() {
		if !strings.HasPrefix(p.Pkg.Path(), "github.com/mholt/caddy-l4") {
			continue
		}
		for _, m := range p.Members {
			f, ok := m.(*ssa.Function)
			if !ok {
				continue
			}
			if fns[f.String()] && f.Pos().IsValid() {
				files[prog.Fset.Position(f.Pos()).Filename] = true
			}
		}
		// methods
		for _, m := range p.Members {
			if t, ok := m.(*ssa.Type); ok {
				for _, tt := range []types.Type{t.Type(), types.NewPointer(t.Type())} {
					ms := prog.MethodSets.MethodSet(tt)
					for i := 0; i < ms.Len(); i++ {
						f := prog.MethodValue(ms.At(i))
						if f != nil && fns[f.String()] && f.Pos().IsValid() {
							files[prog.Fset.Position(f.Pos()).Filename] = true
						}
					}
				}
			}
		}
	}
	out := map[string]string{}
	var names []string
	for f := range files {
		names = append(names, f)
	}
	sort.Strings(names)
	for _, f := range names {
		b, err := os.ReadFile(f)
		if err != nil {
			continue
		}
		h := sha256.Sum256(b)
		out[f] = hex.EncodeToString(h[:8])
	}
	return out
}

// bindReplacements reads the harness package's "Replacements" map literal: it
// is evaluated by running the package initialiser at path start, so here we
// only record the *names*; binding happens by convention: a harness function
// named Repl_<mangled> replaces the callee whose full name mangles to it.
func bindReplacements(in *Interp, pkg *ssa.Package) {
	for name, m := range pkg.Members {
		f, ok := m.(*ssa.Function)
		if !ok || !strings.HasPrefix(name, "Repl_") {
			continue
		}
		// the target is given in the function's doc comment: "//verif:replace <full name>"
		target := replacementTarget(in, f)
		if target != "" {
			in.replace[target] = f
		}
	}
}

func topSites(h map[string]int, n int) map[string]int {
	type kv struct {
		k string
		v int
	}
	var l []kv
	for k, v := range h {
		l = append(l, kv{k, v})
	}
	sort.Slice(l, func(i, j int) bool { return l[i].v > l[j].v })
	out := map[string]int{}
	for i := 0; i < len(l) && i < n; i++ {
		out[l[i].k] = l[i].v
	}
	return out
}
