package main

// Functional byte arrays. A byte object's content is an immutable *Arr; copy,
// append, string conversion and binary reads become one Copy node with symbolic
// length. select() expands a read into an ite over window conditions; leaves
// are (select base i) on declared SMT arrays, constants, or zero.

import "fmt"

type arrKind uint8

const (
	aBase  arrKind = iota // declared SMT array constant
	aZero                 // all zero
	aConst                // concrete bytes (zero beyond)
	aStore                // store(a, i, v)
	aCopy                 // dst with window [doff, doff+n) replaced by src[soff...]
)

type Arr struct {
	kind  arrKind
	name  string
	bytes []byte
	a     *Arr // dst / stored-into
	src   *Arr
	i     *Term // store index or doff
	soff  *Term
	n     *Term
	v     *Term
	memo  map[*Term]*Term
	depth int
}

var arrZero = &Arr{kind: aZero}

func ArrBase(name string) *Arr { arrDecls[name] = true; return &Arr{kind: aBase, name: name} }
func ArrConst(b []byte) *Arr {
	if len(b) == 0 {
		return arrZero
	}
	return &Arr{kind: aConst, bytes: b}
}

func (a *Arr) Store(i, v *Term) *Arr {
	if v.w != 8 {
		panic("store of non-byte")
	}
	// overwrite of the same concrete index on top: collapse
	if a.kind == aStore && a.i == i {
		a = a.a
	}
	return &Arr{kind: aStore, a: a, i: i, v: v, depth: a.depth + 1}
}

func ArrCopy(dst *Arr, doff *Term, src *Arr, soff, n *Term) *Arr {
	if n.IsConst() && n.c == 0 {
		return dst
	}
	d := dst.depth
	if src.depth > d {
		d = src.depth
	}
	return &Arr{kind: aCopy, a: dst, i: doff, src: src, soff: soff, n: n, depth: d + 1}
}

const constArrIteLimit = 300

func (a *Arr) Select(i *Term) *Term {
	if i.w != 64 {
		panic("select index must be 64 bits")
	}
	switch a.kind {
	case aBase:
		return SelBase(a.name, i)
	case aZero:
		return BV(0, 8)
	case aConst:
		if i.IsConst() {
			if i.c < uint64(len(a.bytes)) {
				return BV(uint64(a.bytes[i.c]), 8)
			}
			return BV(0, 8)
		}
		if len(a.bytes) > constArrIteLimit {
			// use a declared array with its content asserted lazily
			return constTable(a, i)
		}
		if a.memo == nil {
			a.memo = map[*Term]*Term{}
		}
		if r, ok := a.memo[i]; ok {
			return r
		}
		r := BV(0, 8)
		lo, hi := i.lo, i.hi
		for k := len(a.bytes) - 1; k >= 0; k-- {
			if uint64(k) < lo || uint64(k) > hi {
				continue
			}
			r = Ite(Eq(i, BV(uint64(k), 64)), BV(uint64(a.bytes[k]), 8), r)
		}
		a.memo[i] = r
		return r
	}
	if a.memo == nil {
		a.memo = map[*Term]*Term{}
	}
	if r, ok := a.memo[i]; ok {
		return r
	}
	var r *Term
	switch a.kind {
	case aStore:
		cur := a
		for cur.kind == aStore && Eq(cur.i, i) == tFalse {
			cur = cur.a
		}
		if cur.kind != aStore {
			r = cur.Select(i)
		} else if c := Eq(cur.i, i); c == tTrue {
			r = cur.v
		} else {
			r = Ite(c, cur.v, cur.a.Select(i))
		}
	case aCopy:
		in := And(Ule(a.i, i), Ult(i, Add(a.i, a.n)))
		switch in {
		case tTrue:
			r = a.src.Select(Add(Sub(i, a.i), a.soff))
		case tFalse:
			r = a.a.Select(i)
		default:
			r = Ite(in, a.src.Select(Add(Sub(i, a.i), a.soff)), a.a.Select(i))
		}
	default:
		panic(fmt.Sprintf("bad arr kind %d", a.kind))
	}
	a.memo[i] = r
	return r
}

// constTable handles symbolic reads of big concrete tables: a declared array
// whose bytes are asserted (once, globally) as equalities.
var constTables = map[*Arr]string{}
var pendingGlobalAsserts []string

func constTable(a *Arr, i *Term) *Term {
	name, ok := constTables[a]
	if !ok {
		name = fmt.Sprintf("ctab%d", len(constTables))
		constTables[a] = name
		arrDecls[name] = true
		for k, b := range a.bytes {
			pendingGlobalAsserts = append(pendingGlobalAsserts,
				fmt.Sprintf("(assert (= (select %s %s) %s))", smtName(name), constStr(BV(uint64(k), 64)), constStr(BV(uint64(b), 8))))
		}
	}
	return Ite(Ult(i, BV(uint64(len(a.bytes)), 64)), SelBase(name, i), BV(0, 8))
}
