package main

import (
	"fmt"
	"go/token"
	"go/types"
	"math"

	"golang.org/x/tools/go/ssa"
)

func (in *Interp) unop(fr *frame, instr *ssa.UnOp) Value {
	x := fr.get(instr.X)
	switch instr.Op {
	case token.MUL: // load
		in.nilCheck(fr, x, instr)
		if in.race != nil {
			in.raceLoc(x, false, fr.site(instr))
		}
		return load(x)
	case token.NOT:
		return Not(x.(*Term))
	case token.SUB:
		if f, ok := x.(FloatV); ok {
			return FloatV{-f.f}
		}
		return Neg(x.(*Term))
	case token.XOR:
		return BvNot(x.(*Term))
	case token.ARROW:
		return in.chanRecv(fr, x, instr.CommaOk, fr.site(instr))
	}
	panic(unsupported("unop " + instr.Op.String()))
}

func (in *Interp) binop(fr *frame, op token.Token, xt types.Type, x, y Value, instr ssa.Instruction) Value {
	switch a := x.(type) {
	case *Term:
		b, ok := y.(*Term)
		if !ok {
			panic(fmt.Sprintf("binop %s on *Term and %T", op, y))
		}
		if a.w == 0 {
			switch op {
			case token.EQL:
				return Eq(a, b)
			case token.NEQ:
				return Ne(a, b)
			case token.AND, token.LAND:
				return And(a, b)
			case token.OR, token.LOR:
				return Or(a, b)
			}
			panic(unsupported("bool binop " + op.String()))
		}
		signed := isSigned(xt)
		switch op {
		case token.ADD:
			return Add(a, b)
		case token.SUB:
			return Sub(a, b)
		case token.MUL:
			return Mul(a, b)
		case token.QUO:
			in.check(fr, Ne(b, BV(0, b.w)), "integer divide by zero", instr)
			if signed {
				return SDiv(a, b)
			}
			return UDiv(a, b)
		case token.REM:
			in.check(fr, Ne(b, BV(0, b.w)), "integer divide by zero", instr)
			if signed {
				return SRem(a, b)
			}
			return URem(a, b)
		case token.AND:
			return BvAnd(a, b)
		case token.OR:
			return BvOr(a, b)
		case token.XOR:
			return BvXor(a, b)
		case token.AND_NOT:
			return BvAnd(a, BvNot(b))
		case token.SHL, token.SHR:
			// normalise the count to a's width
			var yt types.Type
			if bo, ok := instr.(*ssa.BinOp); ok {
				yt = bo.Y.Type()
			}
			cnt := b
			if yt != nil && isSigned(yt) {
				in.check(fr, Sge(b, BV(0, b.w)), "negative shift amount", instr)
			}
			var big *Term = tFalse
			if cnt.w > a.w {
				big = Uge(cnt, BV(uint64(a.w), cnt.w))
				cnt = Extract(cnt, a.w-1, 0)
			} else if cnt.w < a.w {
				cnt = ZExt(cnt, a.w)
			}
			var r *Term
			if op == token.SHL {
				r = Ite(big, BV(0, a.w), Shl(a, cnt))
			} else if signed {
				r = Ite(big, AShr(a, BV(uint64(a.w-1), a.w)), AShr(a, cnt))
			} else {
				r = Ite(big, BV(0, a.w), LShr(a, cnt))
			}
			return r
		case token.EQL:
			return Eq(a, b)
		case token.NEQ:
			return Ne(a, b)
		case token.LSS:
			if signed {
				return Slt(a, b)
			}
			return Ult(a, b)
		case token.LEQ:
			if signed {
				return Sle(a, b)
			}
			return Ule(a, b)
		case token.GTR:
			if signed {
				return Sgt(a, b)
			}
			return Ugt(a, b)
		case token.GEQ:
			if signed {
				return Sge(a, b)
			}
			return Uge(a, b)
		}
	case FloatV:
		b := y.(FloatV)
		switch op {
		case token.ADD:
			return FloatV{a.f + b.f}
		case token.SUB:
			return FloatV{a.f - b.f}
		case token.MUL:
			return FloatV{a.f * b.f}
		case token.QUO:
			return FloatV{a.f / b.f}
		case token.EQL:
			return BoolT(a.f == b.f)
		case token.NEQ:
			return BoolT(a.f != b.f)
		case token.LSS:
			return BoolT(a.f < b.f)
		case token.LEQ:
			return BoolT(a.f <= b.f)
		case token.GTR:
			return BoolT(a.f > b.f)
		case token.GEQ:
			return BoolT(a.f >= b.f)
		}
	case StrV:
		b := y.(StrV)
		switch op {
		case token.ADD:
			return strConcat(a, b)
		case token.EQL:
			return in.strEq(a, b)
		case token.NEQ:
			return Not(in.strEq(a, b))
		case token.LSS, token.LEQ, token.GTR, token.GEQ:
			sa, oka := concStr(a)
			sb, okb := concStr(b)
			if oka && okb {
				switch op {
				case token.LSS:
					return BoolT(sa < sb)
				case token.LEQ:
					return BoolT(sa <= sb)
				case token.GTR:
					return BoolT(sa > sb)
				default:
					return BoolT(sa >= sb)
				}
			}
			panic(unsupported("ordered comparison of symbolic strings"))
		}
	default:
		switch op {
		case token.EQL:
			return in.valueEq(x, y)
		case token.NEQ:
			return Not(in.valueEq(x, y))
		}
	}
	panic(unsupported(fmt.Sprintf("binop %s on %T", op, x)))
}

func strConcat(a, b StrV) StrV {
	if sa, ok := concStr(a); ok {
		if sb, ok := concStr(b); ok {
			return mkStr(sa + sb)
		}
	}
	arr := ArrCopy(arrZero, I64(0), a.arr, a.off, a.len)
	arr = ArrCopy(arr, a.len, b.arr, b.off, b.len)
	return StrV{arr: arr, off: I64(0), len: Add(a.len, b.len)}
}

const eqExpandLimit = 4096

// bytesEq builds the term "the two byte windows have equal content" given equal lengths n.
func (in *Interp) bytesEq(a *Arr, aoff *Term, b *Arr, boff *Term, n *Term) *Term {
	if n.IsConst() {
		if n.c > eqExpandLimit {
			panic(unsupported("equality of >4096 bytes"))
		}
		r := tTrue
		for i := uint64(0); i < n.c; i++ {
			r = And(r, Eq(a.Select(Add(aoff, BV(i, 64))), b.Select(Add(boff, BV(i, 64)))))
			if r == tFalse {
				return r
			}
		}
		return r
	}
	bound := n.hi
	if bound > eqExpandLimit {
		panic(unsupported(fmt.Sprintf("equality of byte windows with unbounded symbolic length (hi=%d)", bound)))
	}
	r := tTrue
	for i := uint64(0); i < bound; i++ {
		k := BV(i, 64)
		r = And(r, Or(Uge(k, n), Eq(a.Select(Add(aoff, k)), b.Select(Add(boff, k)))))
	}
	return r
}

func (in *Interp) strEq(a, b StrV) *Term {
	if sa, ok := concStr(a); ok {
		if sb, ok := concStr(b); ok {
			return BoolT(sa == sb)
		}
	}
	le := Eq(a.len, b.len)
	if le == tFalse {
		return tFalse
	}
	n := a.len
	if b.len.IsConst() || (!a.len.IsConst() && b.len.hi < a.len.hi) {
		n = b.len
	}
	if le != tTrue && !n.IsConst() {
		// guard content comparison with length equality
		return And(le, in.bytesEq(a.arr, a.off, b.arr, b.off, n))
	}
	return And(le, in.bytesEq(a.arr, a.off, b.arr, b.off, n))
}

func (in *Interp) valueEq(x, y Value) *Term {
	switch a := x.(type) {
	case *Term:
		return Eq(a, y.(*Term))
	case FloatV:
		return BoolT(a.f == y.(FloatV).f)
	case StrV:
		return in.strEq(a, y.(StrV))
	case IfaceV:
		b, ok := y.(IfaceV)
		if !ok {
			panic(fmt.Sprintf("valueEq iface vs %T", y))
		}
		if a.t == nil || b.t == nil {
			return BoolT(a.t == nil && b.t == nil)
		}
		if !types.Identical(a.t, b.t) {
			return tFalse
		}
		return in.valueEq(a.v, b.v)
	case StructV:
		b := y.(StructV)
		r := tTrue
		for i := range a {
			r = And(r, in.valueEq(a[i], b[i]))
		}
		return r
	case ArrayV:
		b := y.(ArrayV)
		r := tTrue
		for i := range a {
			r = And(r, in.valueEq(a[i], b[i]))
		}
		return r
	case BArrV:
		b := y.(BArrV)
		return in.bytesEq(a.arr, a.off, b.arr, b.off, I64(int64(a.n)))
	case NilLoc:
		_, ok := y.(NilLoc)
		return BoolT(ok)
	case *Cell, *StructLoc, *ArrayLoc, *ByteObj:
		return BoolT(x == y)
	case BytePtr:
		b, ok := y.(BytePtr)
		if !ok {
			return tFalse
		}
		if a.obj != b.obj {
			return tFalse
		}
		return Eq(a.idx, b.idx)
	case *MapObj:
		b, _ := y.(*MapObj)
		return BoolT(a == b)
	case *ChanObj:
		b, _ := y.(*ChanObj)
		return BoolT(a == b)
	case *Closure:
		b, _ := y.(*Closure)
		if a == nil || b == nil {
			return BoolT(a == nil && b == nil)
		}
		panic(unsupported("comparison of non-nil funcs"))
	case BSlice:
		// only comparison with nil is legal
		b := y.(BSlice)
		if b.obj == nil {
			return BoolT(a.obj == nil)
		}
		return BoolT(b.obj == nil && a.obj == nil)
	case GSlice:
		b := y.(GSlice)
		if b.arr == nil {
			return BoolT(a.arr == nil)
		}
		return BoolT(a.arr == nil && b.arr == nil)
	case *Opaque:
		return BoolT(x == y)
	case nil:
		return BoolT(y == nil)
	}
	panic(unsupported(fmt.Sprintf("valueEq on %T", x)))
}

func (in *Interp) convert(fr *frame, from, to types.Type, x Value, instr ssa.Instruction) Value {
	uf, ut := from.Underlying(), to.Underlying()
	switch v := x.(type) {
	case *Term:
		if tb, ok := ut.(*types.Basic); ok {
			if tb.Info()&types.IsInteger != 0 {
				w := basicWidth(tb)
				if v.w == w {
					return v
				}
				if w < v.w {
					return Extract(v, w-1, 0)
				}
				if isSigned(from) {
					return SExt(v, w)
				}
				return ZExt(v, w)
			}
			if tb.Info()&types.IsFloat != 0 {
				if v.IsConst() {
					if isSigned(from) {
						return FloatV{float64(v.S())}
					}
					return FloatV{float64(v.c)}
				}
				panic(unsupported("symbolic int to float conversion"))
			}
			if tb.Info()&types.IsString != 0 {
				if v.IsConst() {
					return mkStr(string(rune(v.S())))
				}
				// single byte < 0x80 is the common case; otherwise unsupported
				if v.hi < 0x80 {
					return StrV{arr: arrZero.Store(I64(0), Extract(v, 7, 0)), off: I64(0), len: I64(1)}
				}
				panic(unsupported("symbolic rune to string conversion"))
			}
			if tb.Kind() == types.UnsafePointer {
				panic(unsupported("conversion to unsafe.Pointer"))
			}
		}
	case FloatV:
		if tb, ok := ut.(*types.Basic); ok {
			if tb.Info()&types.IsFloat != 0 {
				if tb.Kind() == types.Float32 {
					return FloatV{float64(float32(v.f))}
				}
				return v
			}
			if tb.Info()&types.IsInteger != 0 {
				w := basicWidth(tb)
				if math.IsNaN(v.f) || math.IsInf(v.f, 0) {
					return BV(0, w)
				}
				if isSigned(to) {
					return BV(uint64(int64(v.f)), w)
				}
				return BV(uint64(v.f), w)
			}
		}
	case StrV:
		if _, ok := ut.(*types.Basic); ok {
			return v
		}
		if sl, ok := ut.(*types.Slice); ok {
			if isByteType(sl.Elem()) {
				obj := &ByteObj{id: nextID(), arr: ArrCopy(arrZero, I64(0), v.arr, v.off, v.len), cap: v.len, maxCap: v.len.hi}
				return BSlice{obj: obj, off: I64(0), len: v.len, cap: v.len}
			}
			// []rune
			if s, ok := concStr(v); ok {
				rs := []rune(s)
				arr := &ArrayLoc{elems: make([]Loc, len(rs)), elemT: sl.Elem()}
				for i, r := range rs {
					arr.elems[i] = &Cell{v: BV(uint64(r), 32)}
				}
				return GSlice{arr: arr, len: len(rs), cap: len(rs)}
			}
			panic(unsupported("symbolic string to []rune"))
		}
	case BSlice:
		if tb, ok := ut.(*types.Basic); ok && tb.Info()&types.IsString != 0 {
			if v.obj == nil {
				return mkStr("")
			}
			return StrV{arr: v.obj.arr, off: v.off, len: v.len}
		}
		if _, ok := ut.(*types.Slice); ok {
			return v
		}
	case GSlice:
		if tb, ok := ut.(*types.Basic); ok && tb.Info()&types.IsString != 0 {
			// []rune -> string, concrete only
			var rs []rune
			for i := 0; i < v.len; i++ {
				t := load(v.arr.elems[v.off+i]).(*Term)
				if !t.IsConst() {
					panic(unsupported("symbolic []rune to string"))
				}
				rs = append(rs, rune(t.S()))
			}
			return mkStr(string(rs))
		}
		if _, ok := ut.(*types.Slice); ok {
			return v
		}
	case NilLoc, *Cell, *StructLoc, *ArrayLoc, *ByteObj, BytePtr, ByteView:
		if _, ok := ut.(*types.Pointer); ok {
			return v
		}
		if tb, ok := ut.(*types.Basic); ok && tb.Kind() == types.UnsafePointer {
			panic(unsupported("conversion to unsafe.Pointer"))
		}
	}
	_ = uf
	panic(unsupported(fmt.Sprintf("convert %s -> %s (%T)", from, to, x)))
}

func (in *Interp) sliceToArrayPointer(fr *frame, instr *ssa.SliceToArrayPointer) Value {
	x := fr.get(instr.X)
	at := instr.Type().(*types.Pointer).Elem().Underlying().(*types.Array)
	n := at.Len()
	switch s := x.(type) {
	case BSlice:
		in.check(fr, Uge(s.len, I64(n)), fmt.Sprintf("cannot convert slice with length < %d to array pointer", n), instr)
		if n == 0 {
			return &ByteObj{id: nextID(), arr: arrZero, cap: I64(0)}
		}
		return ByteView{obj: s.obj, off: s.off, n: int(n)}
	}
	panic(unsupported(fmt.Sprintf("SliceToArrayPointer on %T", x)))
}

func (in *Interp) makeSlice(fr *frame, instr *ssa.MakeSlice) Value {
	l := in.toInt64(fr.get(instr.Len), instr.Len.Type())
	c := in.toInt64(fr.get(instr.Cap), instr.Cap.Type())
	et := instr.Type().Underlying().(*types.Slice).Elem()
	if isByteType(et) {
		return in.makeBytes(fr, l, c, instr)
	}
	in.check(fr, And(Sge(l, I64(0)), Sle(l, c)), "makeslice: len out of range", instr)
	if !c.IsConst() || !l.IsConst() {
		// concretise a symbolic length of a non-byte slice by enumeration
		lv := in.concretize(fr, l, instr)
		cv := in.concretize(fr, c, instr)
		l, c = I64(int64(lv)), I64(int64(cv))
	}
	if c.c > 1<<20 {
		panic(unsupported("make of huge non-byte slice"))
	}
	arr := &ArrayLoc{elems: make([]Loc, c.c), elemT: et}
	for i := range arr.elems {
		arr.elems[i] = newLoc(et)
	}
	return GSlice{arr: arr, off: 0, len: int(l.c), cap: int(c.c)}
}

// concretize enumerates the feasible values of a small-range term.
func (in *Interp) concretize(fr *frame, t *Term, instr ssa.Instruction) uint64 {
	if t.IsConst() {
		return t.c
	}
	site := "concretize"
	if fr != nil && instr != nil {
		site = "concretize:" + fr.site(instr)
	}
	if t.hi-t.lo <= 16 {
		for v := t.lo; v < t.hi; v++ {
			if in.e.Branch(Eq(t, BV(v, t.w)), site) {
				return v
			}
		}
		return t.hi
	}
	// unknown range: enumerate feasible values with the solver's help
	for i := 0; i < in.e.unwind; i++ {
		v := in.e.PickValue(t, site)
		if in.e.Branch(Eq(t, BV(v, t.w)), site) {
			return v
		}
	}
	panic(pathEnd{"unwind", "more than unwind feasible values at " + site})
}

const maxAllocGo = uint64(1) << 47

func (in *Interp) makeBytes(fr *frame, l, c *Term, instr ssa.Instruction) Value {
	in.check(fr, And(Sge(l, I64(0)), And(Sle(l, c), Ule(c, I64(int64(maxAllocGo))))), "makeslice: len out of range", instr)
	if in.e.allocLimit > 0 {
		ok := Ule(c, BV(in.e.allocLimit, 64))
		if ok != tTrue {
			site := "?"
			if fr != nil && instr != nil {
				site = fr.site(instr)
			}
			if !in.e.Branch(ok, "alloc:"+site) {
				in.e.Fail("alloc", "allocation above limit", site, fmt.Sprintf("make([]byte, n) with n > %d", in.e.allocLimit))
			}
		}
	}
	obj := &ByteObj{id: nextID(), arr: arrZero, cap: c, maxCap: c.hi}
	return BSlice{obj: obj, off: I64(0), len: l, cap: c}
}

func (in *Interp) toInt64(v Value, t types.Type) *Term {
	x := v.(*Term)
	if x.w == 64 {
		return x
	}
	if isSigned(t) {
		return SExt(x, 64)
	}
	return ZExt(x, 64)
}

func (in *Interp) slice(fr *frame, instr *ssa.Slice) Value {
	x := fr.get(instr.X)
	var lo, hi, max *Term
	if instr.Low != nil {
		lo = in.toInt64(fr.get(instr.Low), instr.Low.Type())
	}
	if instr.High != nil {
		hi = in.toInt64(fr.get(instr.High), instr.High.Type())
	}
	if instr.Max != nil {
		max = in.toInt64(fr.get(instr.Max), instr.Max.Type())
	}
	switch s := x.(type) {
	case StrV:
		if lo == nil {
			lo = I64(0)
		}
		if hi == nil {
			hi = s.len
		}
		in.check(fr, And(Ule(lo, hi), Ule(hi, s.len)), "slice bounds out of range (string)", instr)
		return StrV{arr: s.arr, off: Add(s.off, lo), len: Sub(hi, lo)}
	case BSlice:
		if lo == nil {
			lo = I64(0)
		}
		if hi == nil {
			hi = s.len
		}
		if s.obj == nil {
			in.check(fr, And(Eq(lo, I64(0)), Eq(hi, I64(0))), "slice bounds out of range (nil slice)", instr)
			return s
		}
		cp := s.cap
		if max != nil {
			in.check(fr, And(Ule(lo, hi), And(Ule(hi, max), Ule(max, s.cap))), "slice bounds out of range", instr)
			cp = max
		} else {
			in.check(fr, And(Ule(lo, hi), Ule(hi, s.cap)), "slice bounds out of range", instr)
		}
		return BSlice{obj: s.obj, off: Add(s.off, lo), len: Sub(hi, lo), cap: Sub(cp, lo)}
	case GSlice:
		l, h, m := 0, s.len, s.cap
		if lo != nil {
			l = int(in.concretize(fr, lo, instr))
		}
		if hi != nil {
			h = int(in.concretize(fr, hi, instr))
		}
		if max != nil {
			m = int(in.concretize(fr, max, instr))
		}
		if l < 0 || l > h || h > m || m > s.cap {
			panic(targetPanic{runtime: "slice bounds out of range", site: fr.site(instr)})
		}
		if s.arr == nil {
			return s
		}
		return GSlice{arr: s.arr, off: s.off + l, len: h - l, cap: m - l}
	case *ByteObj: // pointer to byte array
		if lo == nil {
			lo = I64(0)
		}
		if hi == nil {
			hi = s.cap
		}
		cp := s.cap
		if max != nil {
			in.check(fr, And(Ule(lo, hi), And(Ule(hi, max), Ule(max, s.cap))), "slice bounds out of range", instr)
			cp = max
		} else {
			in.check(fr, And(Ule(lo, hi), Ule(hi, s.cap)), "slice bounds out of range", instr)
		}
		return BSlice{obj: s, off: lo, len: Sub(hi, lo), cap: Sub(cp, lo)}
	case ByteView:
		if lo == nil {
			lo = I64(0)
		}
		if hi == nil {
			hi = I64(int64(s.n))
		}
		in.check(fr, And(Ule(lo, hi), Ule(hi, I64(int64(s.n)))), "slice bounds out of range", instr)
		return BSlice{obj: s.obj, off: Add(s.off, lo), len: Sub(hi, lo), cap: Sub(I64(int64(s.n)), lo)}
	case *ArrayLoc:
		l, h, m := 0, len(s.elems), len(s.elems)
		if lo != nil {
			l = int(in.concretize(fr, lo, instr))
		}
		if hi != nil {
			h = int(in.concretize(fr, hi, instr))
		}
		if max != nil {
			m = int(in.concretize(fr, max, instr))
		}
		if l < 0 || l > h || h > m || m > len(s.elems) {
			panic(targetPanic{runtime: "slice bounds out of range", site: fr.site(instr)})
		}
		return GSlice{arr: s, off: l, len: h - l, cap: m - l}
	case NilLoc:
		panic(targetPanic{runtime: "invalid memory address or nil pointer dereference", site: fr.site(instr)})
	}
	panic(unsupported(fmt.Sprintf("slice of %T", x)))
}

func (in *Interp) indexAddr(fr *frame, instr *ssa.IndexAddr) Value {
	x := fr.get(instr.X)
	idx := in.toInt64(fr.get(instr.Index), instr.Index.Type())
	switch s := x.(type) {
	case BSlice:
		if s.obj == nil {
			panic(targetPanic{runtime: "index out of range (nil slice)", site: fr.site(instr)})
		}
		in.check(fr, Ult(idx, s.len), "index out of range", instr)
		return BytePtr{obj: s.obj, idx: Add(s.off, idx)}
	case GSlice:
		i := in.concretizeIdx(fr, idx, s.len, instr)
		return s.arr.elems[s.off+i]
	case *ByteObj:
		in.check(fr, Ult(idx, s.cap), "index out of range", instr)
		return BytePtr{obj: s, idx: idx}
	case ByteView:
		in.check(fr, Ult(idx, I64(int64(s.n))), "index out of range", instr)
		return BytePtr{obj: s.obj, idx: Add(s.off, idx)}
	case *ArrayLoc:
		i := in.concretizeIdx(fr, idx, len(s.elems), instr)
		return s.elems[i]
	case NilLoc:
		panic(targetPanic{runtime: "invalid memory address or nil pointer dereference", site: fr.site(instr)})
	}
	panic(unsupported(fmt.Sprintf("IndexAddr on %T", x)))
}

// concretizeIdx bounds-checks a (possibly symbolic) index into a container of
// concrete length n and returns a concrete index (a choice per feasible value).
func (in *Interp) concretizeIdx(fr *frame, idx *Term, n int, instr ssa.Instruction) int {
	if idx.IsConst() {
		if idx.c >= uint64(n) {
			panic(targetPanic{runtime: fmt.Sprintf("index out of range [%d] with length %d", int64(idx.c), n), site: fr.site(instr)})
		}
		return int(idx.c)
	}
	in.check(fr, Ult(idx, I64(int64(n))), "index out of range", instr)
	site := "index:" + fr.site(instr)
	for i := 0; i < n-1; i++ {
		if uint64(i) < idx.lo || uint64(i) > idx.hi {
			continue
		}
		if in.e.Branch(Eq(idx, I64(int64(i))), site) {
			return i
		}
	}
	return n - 1
}

func (in *Interp) index(fr *frame, instr *ssa.Index) Value {
	x := fr.get(instr.X)
	idx := in.toInt64(fr.get(instr.Index), instr.Index.Type())
	switch s := x.(type) {
	case StrV:
		in.check(fr, Ult(idx, s.len), "index out of range (string)", instr)
		return s.arr.Select(Add(s.off, idx))
	case BArrV:
		in.check(fr, Ult(idx, I64(int64(s.n))), "index out of range", instr)
		return s.arr.Select(Add(s.off, idx))
	case ArrayV:
		i := in.concretizeIdx(fr, idx, len(s), instr)
		return s[i]
	}
	panic(unsupported(fmt.Sprintf("Index on %T", x)))
}

func (in *Interp) lookup(fr *frame, instr *ssa.Lookup) Value {
	x := fr.get(instr.X)
	switch s := x.(type) {
	case StrV:
		idx := in.toInt64(fr.get(instr.Index), instr.Index.Type())
		in.check(fr, Ult(idx, s.len), "index out of range (string)", instr)
		return s.arr.Select(Add(s.off, idx))
	case *MapObj:
		in.raceMap(s, false, fr.site(instr))
		k := fr.get(instr.Index)
		vt := instr.X.Type().Underlying().(*types.Map).Elem()
		var v Value
		found := false
		if s != nil {
			if i := in.mapFind(s, k, fr.site(instr)); i >= 0 {
				v, found = s.entries[i].v, true
			}
		}
		if !found {
			v = zero(vt)
		}
		if instr.CommaOk {
			return TupleV{v, BoolT(found)}
		}
		return v
	}
	panic(unsupported(fmt.Sprintf("Lookup on %T", x)))
}

func (in *Interp) mapFind(m *MapObj, k Value, site string) int {
	for i, e := range m.entries {
		c := in.valueEq(e.k, k)
		if c == tFalse {
			continue
		}
		if c == tTrue || in.e.Branch(c, "mapkey:"+site) {
			return i
		}
	}
	return -1
}

func (in *Interp) mapUpdate(fr *frame, m *MapObj, k, v Value, site string) {
	in.raceMap(m, true, site)
	if i := in.mapFind(m, k, site); i >= 0 {
		m.entries[i].v = v
		return
	}
	m.entries = append(m.entries, mapEntry{k, v})
}

func (in *Interp) mapDelete(m *MapObj, k Value, site string) {
	if m == nil {
		return
	}
	if i := in.mapFind(m, k, site); i >= 0 {
		m.entries = append(m.entries[:i:i], m.entries[i+1:]...)
	}
}

type iter struct {
	// map iteration
	entries []mapEntry
	// string iteration
	str   []rune
	offs  []int
	i     int
	isStr bool
	keyT  types.Type
	valT  types.Type
}

func (in *Interp) rangeIter(fr *frame, x Value, instr *ssa.Range) Value {
	if m, ok := x.(*MapObj); ok {
		in.raceMap(m, false, fr.site(instr))
	}
	switch s := x.(type) {
	case *MapObj:
		mt := instr.X.Type().Underlying().(*types.Map)
		it := &iter{keyT: mt.Key(), valT: mt.Elem()}
		if s != nil {
			it.entries = append(it.entries, s.entries...)
		}
		return it
	case StrV:
		str, ok := concStr(s)
		if !ok {
			panic(unsupported("range over symbolic string"))
		}
		it := &iter{isStr: true}
		for off, r := range str {
			it.str = append(it.str, r)
			it.offs = append(it.offs, off)
		}
		return it
	}
	panic(unsupported(fmt.Sprintf("range over %T", x)))
}

func (in *Interp) next(fr *frame, it *iter, instr *ssa.Next) Value {
	if it.isStr {
		if it.i >= len(it.str) {
			return TupleV{tFalse, I64(0), BV(0, 32)}
		}
		r := TupleV{tTrue, I64(int64(it.offs[it.i])), BV(uint64(it.str[it.i]), 32)}
		it.i++
		return r
	}
	if it.i >= len(it.entries) {
		return TupleV{tFalse, zero(it.keyT), zero(it.valT)}
	}
	e := it.entries[it.i]
	it.i++
	return TupleV{tTrue, e.k, e.v}
}

func (in *Interp) typeAssert(fr *frame, instr *ssa.TypeAssert) Value {
	x := fr.get(instr.X).(IfaceV)
	at := instr.AssertedType
	ok := false
	var v Value
	if x.t != nil && x.t != in.opaqueT {
		if it, isI := at.Underlying().(*types.Interface); isI {
			if types.Implements(x.t, it) {
				ok = true
				v = x
			}
		} else if types.Identical(x.t, at) {
			ok = true
			v = x.v
		}
	}
	if instr.CommaOk {
		if !ok {
			v = zero(at)
		}
		return TupleV{v, BoolT(ok)}
	}
	if !ok {
		desc := "nil"
		if x.t != nil {
			desc = x.t.String()
		}
		panic(targetPanic{runtime: fmt.Sprintf("interface conversion: interface is %s, not %s", desc, at), site: fr.site(instr)})
	}
	return v
}

func (in *Interp) callBuiltin(fr *frame, b *ssa.Builtin, args []Value, cc *ssa.CallCommon, site string) Value {
	switch b.Name() {
	case "len":
		switch x := args[0].(type) {
		case StrV:
			return x.len
		case BSlice:
			if x.obj == nil {
				return I64(0)
			}
			return x.len
		case GSlice:
			return I64(int64(x.len))
		case *MapObj:
			if x == nil {
				return I64(0)
			}
			return I64(int64(len(x.entries)))
		case BArrV:
			return I64(int64(x.n))
		case ArrayV:
			return I64(int64(len(x)))
		case *ByteObj:
			return x.cap
		case *ArrayLoc:
			return I64(int64(len(x.elems)))
		case *ChanObj:
			return I64(int64(x.qlen()))
		}
	case "cap":
		switch x := args[0].(type) {
		case BSlice:
			if x.obj == nil {
				return I64(0)
			}
			return x.cap
		case GSlice:
			return I64(int64(x.cap))
		case *ByteObj:
			return x.cap
		case *ArrayLoc:
			return I64(int64(len(x.elems)))
		case *ChanObj:
			if x == nil {
				return I64(0)
			}
			return I64(int64(x.cap))
		}
	case "copy":
		if in.race != nil {
			in.raceCopy(args[0], args[1], site)
		}
		return in.builtinCopy(args[0], args[1])
	case "append":
		if in.race != nil {
			in.raceAppend(args[0], args[1], site)
		}
		return in.builtinAppend(fr, args[0], args[1], cc, site)
	case "delete":
		in.raceMap(args[0].(*MapObj), true, site)
		in.mapDelete(args[0].(*MapObj), args[1], site)
		return nil
	case "panic":
		panic(targetPanic{v: args[0], site: site})
	case "recover":
		return in.doRecover(fr)
	case "print", "println":
		return nil
	case "close":
		in.chanClose(fr, args[0], site)
		return nil
	case "min", "max":
		r := args[0].(*Term)
		signed := isSigned(cc.Args[0].Type())
		for _, a := range args[1:] {
			t := a.(*Term)
			var lt *Term // t < r
			if signed {
				lt = Slt(t, r)
			} else {
				lt = Ult(t, r)
			}
			if b.Name() == "min" {
				r = Ite(lt, t, r)
			} else {
				r = Ite(lt, r, t)
			}
		}
		return r
	case "clear":
		switch x := args[0].(type) {
		case *MapObj:
			if x != nil {
				x.entries = nil
			}
			return nil
		case BSlice:
			if x.obj != nil {
				x.obj.arr = ArrCopy(x.obj.arr, x.off, arrZero, I64(0), x.len)
			}
			return nil
		case GSlice:
			for i := 0; i < x.len; i++ {
				store(x.arr.elems[x.off+i], zero(x.arr.elemT))
			}
			return nil
		}
	case "ssa:wrapnilchk":
		if isNilLoc(args[0]) {
			panic(targetPanic{runtime: "value method called using nil pointer", site: site})
		}
		return args[0]
	}
	panic(unsupported(fmt.Sprintf("builtin %s on %T", b.Name(), args[0])))
}

func (in *Interp) doRecover(fr *frame) Value {
	// recover() must be called directly by a deferred function
	caller := fr
	if caller != nil && !caller.panicking && caller.caller != nil && caller.caller.panicking {
		p := caller.caller.panicVal.(targetPanic)
		caller.caller.panicking = false
		caller.caller.panicVal = nil
		if p.runtime != "" {
			return in.newErrorString("runtime error: " + p.runtime)
		}
		return p.v
	}
	return IfaceV{}
}

func (in *Interp) builtinCopy(dst, src Value) Value {
	switch d := dst.(type) {
	case BSlice:
		var sarr *Arr
		var soff, slen *Term
		switch s := src.(type) {
		case BSlice:
			if s.obj == nil {
				return I64(0)
			}
			sarr, soff, slen = s.obj.arr, s.off, s.len
		case StrV:
			sarr, soff, slen = s.arr, s.off, s.len
		default:
			panic(fmt.Sprintf("copy from %T", src))
		}
		if d.obj == nil {
			return I64(0)
		}
		n := Min(d.len, slen, false)
		d.obj.arr = ArrCopy(d.obj.arr, d.off, sarr, soff, n)
		return n
	case GSlice:
		s := src.(GSlice)
		n := d.len
		if s.len < n {
			n = s.len
		}
		tmp := make([]Value, n)
		for i := 0; i < n; i++ {
			tmp[i] = load(s.arr.elems[s.off+i])
		}
		for i := 0; i < n; i++ {
			store(d.arr.elems[d.off+i], tmp[i])
		}
		return I64(int64(n))
	}
	panic(unsupported(fmt.Sprintf("copy to %T", dst)))
}

func (in *Interp) builtinAppend(fr *frame, dst, src Value, cc *ssa.CallCommon, site string) Value {
	switch d := dst.(type) {
	case BSlice:
		var sarr *Arr
		var soff, slen *Term
		switch s := src.(type) {
		case BSlice:
			if s.obj == nil {
				return d
			}
			sarr, soff, slen = s.obj.arr, s.off, s.len
		case StrV:
			sarr, soff, slen = s.arr, s.off, s.len
		default:
			panic(fmt.Sprintf("append from %T", src))
		}
		return in.appendBytes(d, sarr, soff, slen, site)
	case GSlice:
		s := src.(GSlice)
		if s.len == 0 {
			return d
		}
		newLen := d.len + s.len
		vals := make([]Value, s.len)
		for i := range vals {
			vals[i] = load(s.arr.elems[s.off+i])
		}
		if d.arr != nil && newLen <= d.cap {
			for i, v := range vals {
				store(d.arr.elems[d.off+d.len+i], v)
			}
			return GSlice{arr: d.arr, off: d.off, len: newLen, cap: d.cap}
		}
		et := cc.Args[0].Type().Underlying().(*types.Slice).Elem()
		newCap := newLen
		if d.cap*2 > newCap {
			newCap = d.cap * 2
		}
		arr := &ArrayLoc{elems: make([]Loc, newCap), elemT: et}
		for i := range arr.elems {
			arr.elems[i] = newLoc(et)
		}
		for i := 0; i < d.len; i++ {
			store(arr.elems[i], load(d.arr.elems[d.off+i]))
		}
		for i, v := range vals {
			store(arr.elems[d.len+i], v)
		}
		return GSlice{arr: arr, off: 0, len: newLen, cap: newCap}
	}
	panic(unsupported(fmt.Sprintf("append to %T", dst)))
}

func (in *Interp) appendBytes(d BSlice, sarr *Arr, soff, slen *Term, site string) Value {
	if slen.IsConst() && slen.c == 0 {
		return d
	}
	dlen, dcap := d.len, d.cap
	if d.obj == nil {
		dlen, dcap = I64(0), I64(0)
	}
	newLen := Add(dlen, slen)
	fits := Ule(newLen, dcap)
	if d.obj != nil && in.e.Branch(fits, "append-fits:"+site) {
		d.obj.arr = ArrCopy(d.obj.arr, Add(d.off, dlen), sarr, soff, slen)
		return BSlice{obj: d.obj, off: d.off, len: newLen, cap: d.cap}
	}
	// growth: the new capacity is whatever the runtime picks (>= newLen)
	var ncap *Term
	if newLen.IsConst() {
		oc := uint64(0)
		if d.obj != nil && dcap.IsConst() {
			oc = dcap.c
		}
		ncap = BV(growCapBytes(oc, newLen.c), 64) // Go 1.23 growslice for 1-byte elements
	} else {
		name := in.e.freshName("appendcap")
		hi := newLen.hi
		if hi > 1<<40 {
			hi = 1 << 40
		}
		ncap = VarRange(name, 64, newLen.lo, 4*hi+4096)
		in.e.AssumeFresh(rawRange(ncap, newLen.lo, 4*hi+4096))
		in.e.AssumeFresh(And(Ule(newLen, ncap), Ule(ncap, Add(Shl(newLen, I64(2)), I64(4096)))))
		in.e.inputs = append(in.e.inputs, inputDecl{name: name, kind: "int", t: ncap, w: 64})
		in.e.assumptions["capacity after a growing append is any value in [len, 4*len+4096]"] = true
	}
	arr := arrZero
	if d.obj != nil {
		arr = ArrCopy(arr, I64(0), d.obj.arr, d.off, dlen)
	}
	arr = ArrCopy(arr, dlen, sarr, soff, slen)
	obj := &ByteObj{id: nextID(), arr: arr, cap: ncap, maxCap: ncap.hi}
	return BSlice{obj: obj, off: I64(0), len: newLen, cap: ncap}
}
