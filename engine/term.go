package main

// Hash-consed term DAG over bit-vectors (Go's machine integers) and booleans.
// Constructors fold constants and a few identities so that configuration-only
// code costs no solver query. Every term carries a conservative unsigned
// interval used to fold comparisons and to bound expansions.

import (
	"fmt"
	"math/bits"
	"strconv"
	"strings"
)

type Op uint8

const (
	OpConst Op = iota
	OpVar
	OpSel // select on a declared base array: name, a[0]=index (BV64) -> BV8
	OpAdd
	OpSub
	OpMul
	OpUDiv
	OpURem
	OpSDiv
	OpSRem
	OpAnd
	OpOr
	OpXor
	OpNot
	OpNeg
	OpShl
	OpLShr
	OpAShr
	OpConcat
	OpExtract // c = hi<<8|lo
	OpZExt
	OpSExt
	OpEq
	OpUlt
	OpUle
	OpSlt
	OpSle
	OpBAnd
	OpBOr
	OpBNot
	OpIte
	OpUF // uninterpreted function application: name, args; result width w
)

var opNames = map[Op]string{
	OpAdd: "bvadd", OpSub: "bvsub", OpMul: "bvmul", OpUDiv: "bvudiv", OpURem: "bvurem",
	OpSDiv: "bvsdiv", OpSRem: "bvsrem", OpAnd: "bvand", OpOr: "bvor", OpXor: "bvxor",
	OpNot: "bvnot", OpNeg: "bvneg", OpShl: "bvshl", OpLShr: "bvlshr", OpAShr: "bvashr",
	OpConcat: "concat", OpEq: "=", OpUlt: "bvult", OpUle: "bvule", OpSlt: "bvslt", OpSle: "bvsle",
	OpBAnd: "and", OpBOr: "or", OpBNot: "not", OpIte: "ite",
}

// Term is immutable. w == 0 means Bool; otherwise a bit-vector of width w (1..64).
type Term struct {
	op   Op
	w    int
	a    []*Term
	c    uint64
	name string
	id   int
	lo   uint64 // unsigned interval (for BV)
	hi   uint64
	sent bool // defined in the solver (global define-fun)
	size int
	dep  uint8 // bit 0: depends on the virtual clock; bit 1: on an unspecified append capacity
}

var (
	termTab   = map[string]*Term{}
	termList  []*Term
	varRanges = map[string][2]uint64{}
	ufDecls   = map[string]string{} // name -> smt signature
	arrDecls  = map[string]bool{}
)

func mask(w int) uint64 {
	if w >= 64 {
		return ^uint64(0)
	}
	return (uint64(1) << uint(w)) - 1
}

func mk(op Op, w int, c uint64, name string, a ...*Term) *Term {
	var sb strings.Builder
	sb.WriteByte(byte(op))
	sb.WriteByte(byte(w))
	sb.WriteString(strconv.FormatUint(c, 36))
	sb.WriteByte('|')
	sb.WriteString(name)
	for _, x := range a {
		sb.WriteByte(',')
		sb.WriteString(strconv.Itoa(x.id))
	}
	k := sb.String()
	if t, ok := termTab[k]; ok {
		return t
	}
	t := &Term{op: op, w: w, a: a, c: c, name: name, id: len(termList)}
	t.size = 1
	if op == OpVar {
		if strings.HasPrefix(name, "clock.") {
			t.dep |= 1
		}
		if strings.HasPrefix(name, "appendcap") {
			t.dep |= 2
		}
		if strings.HasPrefix(name, "rand.") {
			t.dep |= 4
		}
	}
	for _, x := range a {
		t.dep |= x.dep
		t.size += x.size
		if t.size > 1<<30 {
			t.size = 1 << 30
		}
	}
	t.lo, t.hi = computeRange(t)
	termTab[k] = t
	termList = append(termList, t)
	return t
}

func (t *Term) IsConst() bool { return t.op == OpConst }
func (t *Term) IsBool() bool  { return t.w == 0 }

// Const value as uint64 (masked).
func (t *Term) U() uint64 { return t.c }

// Signed value of a constant.
func (t *Term) S() int64 {
	return signExt(t.c, t.w)
}

func signExt(v uint64, w int) int64 {
	if w >= 64 {
		return int64(v)
	}
	if v&(1<<uint(w-1)) != 0 {
		return int64(v | ^mask(w))
	}
	return int64(v)
}

var (
	tTrue  = mk(OpConst, 0, 1, "")
	tFalse = mk(OpConst, 0, 0, "")
)

func BV(v uint64, w int) *Term { return mk(OpConst, w, v&mask(w), "") }
func I64(v int64) *Term        { return BV(uint64(v), 64) }
func BoolT(b bool) *Term {
	if b {
		return tTrue
	}
	return tFalse
}

// Var creates (or finds) a bit-vector variable. VarRange additionally records an
// unsigned range [lo,hi] that the caller asserts in the solver; the range is
// part of the term's identity (the same variable name may be declared with a
// different range on another path, and interval folding must only ever use the
// range that is asserted on the path the term lives on).
func Var(name string, w int) *Term { return mkVar(name, w, 0, mask(w)) }
func VarRange(name string, w int, lo, hi uint64) *Term {
	return mkVar(name, w, lo, hi)
}

func mkVar(name string, w int, lo, hi uint64) *Term {
	k := "V" + strconv.Itoa(w) + "|" + name + "|" + strconv.FormatUint(lo, 36) + "|" + strconv.FormatUint(hi, 36)
	if t, ok := termTab[k]; ok {
		return t
	}
	t := &Term{op: OpVar, w: w, name: name, id: len(termList), size: 1, lo: lo, hi: hi}
	if strings.HasPrefix(name, "clock.") {
		t.dep |= 1
	}
	if strings.HasPrefix(name, "appendcap") {
		t.dep |= 2
	}
	if strings.HasPrefix(name, "rand.") {
		t.dep |= 4
	}
	termTab[k] = t
	termList = append(termList, t)
	return t
}
func BoolVar(name string) *Term {
	k := "VB|" + name
	if t, ok := termTab[k]; ok {
		return t
	}
	t := &Term{op: OpVar, w: 0, name: name, id: len(termList), size: 1, lo: 0, hi: 1}
	termTab[k] = t
	termList = append(termList, t)
	return t
}

func computeRange(t *Term) (uint64, uint64) {
	if t.w == 0 {
		return 0, 1
	}
	m := mask(t.w)
	switch t.op {
	case OpConst:
		return t.c, t.c
	case OpSel:
		return 0, 255
	case OpAdd:
		a, b := t.a[0], t.a[1]
		hi, c1 := bits.Add64(a.hi, b.hi, 0)
		if c1 == 0 && hi <= m {
			return a.lo + b.lo, hi
		}
	case OpSub:
		a, b := t.a[0], t.a[1]
		if a.lo >= b.hi {
			return a.lo - b.hi, a.hi - b.lo
		}
	case OpMul:
		a, b := t.a[0], t.a[1]
		h, l := bits.Mul64(a.hi, b.hi)
		if h == 0 && l <= m {
			return a.lo * b.lo, l
		}
	case OpUDiv:
		a, b := t.a[0], t.a[1]
		if b.lo > 0 {
			return a.lo / b.hi, a.hi / b.lo
		}
	case OpURem:
		a, b := t.a[0], t.a[1]
		if b.lo > 0 {
			h := b.hi - 1
			if a.hi < h {
				h = a.hi
			}
			return 0, h
		}
	case OpAnd:
		a, b := t.a[0], t.a[1]
		h := a.hi
		if b.hi < h {
			h = b.hi
		}
		return 0, h
	case OpOr, OpXor:
		a, b := t.a[0], t.a[1]
		h := a.hi | b.hi
		if bits.Len64(h) == 64 {
			return 0, m
		}
		return 0, ((uint64(1) << uint(bits.Len64(h))) - 1) & m
	case OpLShr:
		a, b := t.a[0], t.a[1]
		if b.IsConst() && b.c < 64 {
			return a.lo >> b.c, a.hi >> b.c
		}
		return 0, a.hi
	case OpShl:
		a, b := t.a[0], t.a[1]
		if b.IsConst() && b.c < 64 {
			if bits.Len64(a.hi)+int(b.c) <= t.w {
				return a.lo << b.c, a.hi << b.c
			}
		}
	case OpZExt:
		return t.a[0].lo, t.a[0].hi
	case OpSExt:
		a := t.a[0]
		if a.hi < uint64(1)<<uint(a.w-1) {
			return a.lo, a.hi
		}
	case OpExtract:
		hi, lo := int(t.c>>8), int(t.c&0xff)
		a := t.a[0]
		if lo == 0 && a.hi <= mask(hi+1) {
			return a.lo, a.hi
		}
	case OpConcat:
		a, b := t.a[0], t.a[1]
		return a.lo<<uint(b.w) | b.lo&0, a.hi<<uint(b.w) | mask(b.w)
	case OpIte:
		a, b := t.a[1], t.a[2]
		lo, hi := a.lo, a.hi
		if b.lo < lo {
			lo = b.lo
		}
		if b.hi > hi {
			hi = b.hi
		}
		return lo, hi
	}
	return 0, m
}

// nonNeg reports that the value is provably non-negative as a signed number.
func (t *Term) nonNeg() bool { return t.hi < uint64(1)<<uint(t.w-1) }

func Not(a *Term) *Term {
	if a.IsConst() {
		return BoolT(a.c == 0)
	}
	if a.op == OpBNot {
		return a.a[0]
	}
	return mk(OpBNot, 0, 0, "", a)
}

func And(a, b *Term) *Term {
	if a.IsConst() {
		if a.c == 0 {
			return tFalse
		}
		return b
	}
	if b.IsConst() {
		if b.c == 0 {
			return tFalse
		}
		return a
	}
	if a == b {
		return a
	}
	if a == Not(b) {
		return tFalse
	}
	return mk(OpBAnd, 0, 0, "", a, b)
}

func Or(a, b *Term) *Term {
	if a.IsConst() {
		if a.c != 0 {
			return tTrue
		}
		return b
	}
	if b.IsConst() {
		if b.c != 0 {
			return tTrue
		}
		return a
	}
	if a == b {
		return a
	}
	if a == Not(b) {
		return tTrue
	}
	return mk(OpBOr, 0, 0, "", a, b)
}

func Implies(a, b *Term) *Term { return Or(Not(a), b) }

func Ite(c, a, b *Term) *Term {
	if c.IsConst() {
		if c.c != 0 {
			return a
		}
		return b
	}
	if a == b {
		return a
	}
	if a.w != b.w {
		panic(fmt.Sprintf("ite width mismatch %d %d", a.w, b.w))
	}
	if a.w == 0 {
		if a.IsConst() && b.IsConst() {
			if a.c != 0 {
				return c
			}
			return Not(c)
		}
		if a.IsConst() {
			if a.c != 0 {
				return Or(c, b)
			}
			return And(Not(c), b)
		}
		if b.IsConst() {
			if b.c != 0 {
				return Or(Not(c), a)
			}
			return And(c, a)
		}
	}
	if c.op == OpBNot {
		return Ite(c.a[0], b, a)
	}
	// ite(c, ite(c, x, y), z) = ite(c, x, z)
	if a.op == OpIte && a.a[0] == c {
		a = a.a[1]
	}
	if b.op == OpIte && b.a[0] == c {
		b = b.a[2]
	}
	if a == b {
		return a
	}
	return mk(OpIte, a.w, 0, "", c, a, b)
}

func Eq(a, b *Term) *Term {
	if a == b {
		return tTrue
	}
	if a.w != b.w {
		panic(fmt.Sprintf("eq width mismatch %d %d (%s, %s)", a.w, b.w, a, b))
	}
	if a.IsConst() && b.IsConst() {
		return BoolT(a.c == b.c)
	}
	if a.w == 0 {
		if a.IsConst() {
			if a.c != 0 {
				return b
			}
			return Not(b)
		}
		if b.IsConst() {
			if b.c != 0 {
				return a
			}
			return Not(a)
		}
	} else {
		if a.hi < b.lo || b.hi < a.lo {
			return tFalse
		}
		if a.IsConst() {
			a, b = b, a
		}
		if b.IsConst() {
			// eq(ite(c,k1,k2), k) folding
			if a.op == OpIte {
				x, y := a.a[1], a.a[2]
				if x.IsConst() || y.IsConst() {
					return Ite(a.a[0], Eq(x, b), Eq(y, b))
				}
			}
			// eq(zext(x), k)
			if a.op == OpZExt {
				x := a.a[0]
				if b.c > mask(x.w) {
					return tFalse
				}
				return Eq(x, BV(b.c, x.w))
			}
			// eq(x + k1, k) -> eq(x, k-k1)
			if a.op == OpAdd && a.a[1].IsConst() {
				return Eq(a.a[0], BV(b.c-a.a[1].c, a.w))
			}
		}
	}
	if a.id > b.id {
		a, b = b, a
	}
	return mk(OpEq, 0, 0, "", a, b)
}

func Ne(a, b *Term) *Term { return Not(Eq(a, b)) }

func Ult(a, b *Term) *Term {
	if a == b {
		return tFalse
	}
	if a.hi < b.lo {
		return tTrue
	}
	if a.lo >= b.hi {
		return tFalse
	}
	if a.op == OpZExt && b.op == OpZExt && a.a[0].w == b.a[0].w {
		return Ult(a.a[0], b.a[0])
	}
	if a.op == OpZExt && b.IsConst() && b.c <= mask(a.a[0].w) {
		return Ult(a.a[0], BV(b.c, a.a[0].w))
	}
	if b.op == OpZExt && a.IsConst() && a.c <= mask(b.a[0].w) {
		return Ult(BV(a.c, b.a[0].w), b.a[0])
	}
	return mk(OpUlt, 0, 0, "", a, b)
}
func Ule(a, b *Term) *Term { return Not(Ult(b, a)) }
func Ugt(a, b *Term) *Term { return Ult(b, a) }
func Uge(a, b *Term) *Term { return Not(Ult(a, b)) }

func Slt(a, b *Term) *Term {
	if a == b {
		return tFalse
	}
	if a.IsConst() && b.IsConst() {
		return BoolT(a.S() < b.S())
	}
	if a.nonNeg() && b.nonNeg() {
		return Ult(a, b)
	}
	return mk(OpSlt, 0, 0, "", a, b)
}
func Sle(a, b *Term) *Term { return Not(Slt(b, a)) }
func Sgt(a, b *Term) *Term { return Slt(b, a) }
func Sge(a, b *Term) *Term { return Not(Slt(a, b)) }

func checkW(a, b *Term, what string) {
	if a.w != b.w || a.w == 0 {
		panic(fmt.Sprintf("%s: width mismatch %d %d", what, a.w, b.w))
	}
}

func Add(a, b *Term) *Term {
	checkW(a, b, "add")
	if a.IsConst() && b.IsConst() {
		return BV(a.c+b.c, a.w)
	}
	if a.IsConst() {
		a, b = b, a
	}
	if b.IsConst() {
		if b.c == 0 {
			return a
		}
		if a.op == OpAdd && a.a[1].IsConst() {
			return Add(a.a[0], BV(a.a[1].c+b.c, a.w))
		}
		if a.op == OpSub && a.a[1].IsConst() {
			return Add(a.a[0], BV(b.c-a.a[1].c, a.w))
		}
		if a.op == OpIte && a.a[1].IsConst() && a.a[2].IsConst() {
			return Ite(a.a[0], Add(a.a[1], b), Add(a.a[2], b))
		}
		return mk(OpAdd, a.w, 0, "", a, b)
	}
	// (x - y) + y = x
	if a.op == OpSub && a.a[1] == b {
		return a.a[0]
	}
	if b.op == OpSub && b.a[1] == a {
		return b.a[0]
	}
	// (x + k) + y -> (x + y) + k
	if a.op == OpAdd && a.a[1].IsConst() {
		return Add(Add(a.a[0], b), a.a[1])
	}
	if b.op == OpAdd && b.a[1].IsConst() {
		return Add(Add(a, b.a[0]), b.a[1])
	}
	if a.id > b.id {
		a, b = b, a
	}
	return mk(OpAdd, a.w, 0, "", a, b)
}

func Sub(a, b *Term) *Term {
	checkW(a, b, "sub")
	if a == b {
		return BV(0, a.w)
	}
	if b.IsConst() {
		return Add(a, BV(-b.c, a.w))
	}
	if a.IsConst() && a.c == 0 {
		return Neg(b)
	}
	// (x + y) - y = x ; (x + y) - x = y
	if a.op == OpAdd {
		if a.a[1] == b {
			return a.a[0]
		}
		if a.a[0] == b {
			return a.a[1]
		}
		// (x + k) - y -> (x - y) + k
		if a.a[1].IsConst() {
			return Add(Sub(a.a[0], b), a.a[1])
		}
	}
	// x - (y + k) -> (x - y) - k
	if b.op == OpAdd && b.a[1].IsConst() {
		return Add(Sub(a, b.a[0]), BV(-b.a[1].c, a.w))
	}
	// x - (x - y) = y
	if b.op == OpSub && b.a[0] == a {
		return b.a[1]
	}
	return mk(OpSub, a.w, 0, "", a, b)
}

func Neg(a *Term) *Term {
	if a.IsConst() {
		return BV(-a.c, a.w)
	}
	return mk(OpNeg, a.w, 0, "", a)
}

func Mul(a, b *Term) *Term {
	checkW(a, b, "mul")
	if a.IsConst() && b.IsConst() {
		return BV(a.c*b.c, a.w)
	}
	if a.IsConst() {
		a, b = b, a
	}
	if b.IsConst() {
		if b.c == 0 {
			return b
		}
		if b.c == 1 {
			return a
		}
		if b.c&(b.c-1) == 0 {
			return Shl(a, BV(uint64(bits.TrailingZeros64(b.c)), a.w))
		}
	}
	return mk(OpMul, a.w, 0, "", a, b)
}

func UDiv(a, b *Term) *Term {
	checkW(a, b, "udiv")
	if a.IsConst() && b.IsConst() && b.c != 0 {
		return BV(a.c/b.c, a.w)
	}
	if b.IsConst() && b.c == 1 {
		return a
	}
	if b.IsConst() && b.c != 0 && b.c&(b.c-1) == 0 {
		return LShr(a, BV(uint64(bits.TrailingZeros64(b.c)), a.w))
	}
	return mk(OpUDiv, a.w, 0, "", a, b)
}

func URem(a, b *Term) *Term {
	checkW(a, b, "urem")
	if a.IsConst() && b.IsConst() && b.c != 0 {
		return BV(a.c%b.c, a.w)
	}
	if b.IsConst() && b.c != 0 && a.hi < b.c {
		return a
	}
	if b.IsConst() && b.c != 0 && b.c&(b.c-1) == 0 {
		return BvAnd(a, BV(b.c-1, a.w))
	}
	return mk(OpURem, a.w, 0, "", a, b)
}

func SDiv(a, b *Term) *Term {
	checkW(a, b, "sdiv")
	if a.IsConst() && b.IsConst() && b.c != 0 {
		x, y := a.S(), b.S()
		if !(y == -1 && x == -x && x != 0) {
			return BV(uint64(x/y), a.w)
		}
	}
	if a.nonNeg() && b.nonNeg() {
		return UDiv(a, b)
	}
	return mk(OpSDiv, a.w, 0, "", a, b)
}

func SRem(a, b *Term) *Term {
	checkW(a, b, "srem")
	if a.IsConst() && b.IsConst() && b.c != 0 {
		x, y := a.S(), b.S()
		if y != -1 {
			return BV(uint64(x%y), a.w)
		}
		return BV(0, a.w)
	}
	if a.nonNeg() && b.nonNeg() {
		return URem(a, b)
	}
	return mk(OpSRem, a.w, 0, "", a, b)
}

func BvAnd(a, b *Term) *Term {
	checkW(a, b, "and")
	if a.IsConst() && b.IsConst() {
		return BV(a.c&b.c, a.w)
	}
	if a.IsConst() {
		a, b = b, a
	}
	if b.IsConst() {
		if b.c == 0 {
			return b
		}
		if b.c == mask(a.w) {
			return a
		}
		if a.hi <= b.c && b.c&(b.c+1) == 0 {
			return a
		}
	}
	if a == b {
		return a
	}
	return mk(OpAnd, a.w, 0, "", a, b)
}

func BvOr(a, b *Term) *Term {
	checkW(a, b, "or")
	if a.IsConst() && b.IsConst() {
		return BV(a.c|b.c, a.w)
	}
	if a.IsConst() {
		a, b = b, a
	}
	if b.IsConst() && b.c == 0 {
		return a
	}
	if a == b {
		return a
	}
	return mk(OpOr, a.w, 0, "", a, b)
}

func BvXor(a, b *Term) *Term {
	checkW(a, b, "xor")
	if a.IsConst() && b.IsConst() {
		return BV(a.c^b.c, a.w)
	}
	if a.IsConst() {
		a, b = b, a
	}
	if b.IsConst() && b.c == 0 {
		return a
	}
	if a == b {
		return BV(0, a.w)
	}
	return mk(OpXor, a.w, 0, "", a, b)
}

func BvNot(a *Term) *Term {
	if a.IsConst() {
		return BV(^a.c, a.w)
	}
	return mk(OpNot, a.w, 0, "", a)
}

// Shift amounts are terms of the same width as a (callers convert); Go
// semantics for amounts >= width (result 0 / sign fill) coincide with SMT-LIB.
func Shl(a, b *Term) *Term {
	checkW(a, b, "shl")
	if b.IsConst() {
		if b.c == 0 {
			return a
		}
		if b.c >= uint64(a.w) {
			return BV(0, a.w)
		}
		if a.IsConst() {
			return BV(a.c<<b.c, a.w)
		}
	}
	return mk(OpShl, a.w, 0, "", a, b)
}

func LShr(a, b *Term) *Term {
	checkW(a, b, "lshr")
	if b.IsConst() {
		if b.c == 0 {
			return a
		}
		if b.c >= uint64(a.w) {
			return BV(0, a.w)
		}
		if a.IsConst() {
			return BV(a.c>>b.c, a.w)
		}
	}
	return mk(OpLShr, a.w, 0, "", a, b)
}

func AShr(a, b *Term) *Term {
	checkW(a, b, "ashr")
	if a.nonNeg() {
		return LShr(a, b)
	}
	if b.IsConst() {
		if b.c == 0 {
			return a
		}
		if a.IsConst() {
			sh := b.c
			if sh >= uint64(a.w) {
				sh = uint64(a.w) - 1
			}
			return BV(uint64(a.S()>>sh), a.w)
		}
	}
	return mk(OpAShr, a.w, 0, "", a, b)
}

func Extract(a *Term, hi, lo int) *Term {
	if lo == 0 && hi == a.w-1 {
		return a
	}
	w := hi - lo + 1
	if a.IsConst() {
		return BV(a.c>>uint(lo), w)
	}
	if a.op == OpZExt || a.op == OpSExt {
		x := a.a[0]
		if hi < x.w {
			return Extract(x, hi, lo)
		}
		if a.op == OpZExt && lo >= x.w {
			return BV(0, w)
		}
		if a.op == OpZExt && lo == 0 {
			return ZExt(x, w)
		}
	}
	if a.op == OpConcat {
		h, l := a.a[0], a.a[1]
		if hi < l.w {
			return Extract(l, hi, lo)
		}
		if lo >= l.w {
			return Extract(h, hi-l.w, lo-l.w)
		}
	}
	if a.op == OpExtract {
		ilo := int(a.c & 0xff)
		return Extract(a.a[0], hi+ilo, lo+ilo)
	}
	if a.op == OpIte && (a.a[1].IsConst() || a.a[2].IsConst()) {
		return Ite(a.a[0], Extract(a.a[1], hi, lo), Extract(a.a[2], hi, lo))
	}
	return mk(OpExtract, w, uint64(hi)<<8|uint64(lo), "", a)
}

func ZExt(a *Term, w int) *Term {
	if w == a.w {
		return a
	}
	if w < a.w {
		return Extract(a, w-1, 0)
	}
	if a.IsConst() {
		return BV(a.c, w)
	}
	if a.op == OpZExt {
		return ZExt(a.a[0], w)
	}
	if a.op == OpIte && a.a[1].IsConst() && a.a[2].IsConst() {
		return Ite(a.a[0], ZExt(a.a[1], w), ZExt(a.a[2], w))
	}
	return mk(OpZExt, w, 0, "", a)
}

func SExt(a *Term, w int) *Term {
	if w == a.w {
		return a
	}
	if w < a.w {
		return Extract(a, w-1, 0)
	}
	if a.IsConst() {
		return BV(uint64(a.S()), w)
	}
	if a.nonNeg() {
		return ZExt(a, w)
	}
	return mk(OpSExt, w, 0, "", a)
}

func Concat(h, l *Term) *Term {
	if h.IsConst() && l.IsConst() {
		return BV(h.c<<uint(l.w)|l.c, h.w+l.w)
	}
	if h.IsConst() && h.c == 0 {
		return ZExt(l, h.w+l.w)
	}
	return mk(OpConcat, h.w+l.w, 0, "", h, l)
}

func SelBase(name string, idx *Term) *Term {
	if idx.w != 64 {
		panic("select index must be 64-bit")
	}
	arrDecls[name] = true
	return mk(OpSel, 8, 0, name, idx)
}

func UF(name string, w int, args ...*Term) *Term {
	if _, ok := ufDecls[name]; !ok {
		var sb strings.Builder
		sb.WriteString("(")
		for i, a := range args {
			if i > 0 {
				sb.WriteString(" ")
			}
			sb.WriteString(sortStr(a.w))
		}
		sb.WriteString(") ")
		sb.WriteString(sortStr(w))
		ufDecls[name] = sb.String()
	}
	return mk(OpUF, w, 0, name, args...)
}

func Min(a, b *Term, signed bool) *Term {
	if signed {
		return Ite(Slt(a, b), a, b)
	}
	return Ite(Ult(a, b), a, b)
}

func sortStr(w int) string {
	if w == 0 {
		return "Bool"
	}
	return fmt.Sprintf("(_ BitVec %d)", w)
}

func constStr(t *Term) string {
	if t.w == 0 {
		if t.c != 0 {
			return "true"
		}
		return "false"
	}
	if t.w%4 == 0 {
		return fmt.Sprintf("#x%0*x", t.w/4, t.c)
	}
	return fmt.Sprintf("#b%0*b", t.w, t.c)
}

func smtName(s string) string {
	// names may contain characters not allowed in simple symbols
	return "|" + strings.ReplaceAll(s, "|", "_") + "|"
}

// ref returns the SMT text that refers to t assuming all non-leaf terms were
// defined via define-fun as t<id>.
func (t *Term) ref() string {
	switch t.op {
	case OpConst:
		return constStr(t)
	case OpVar:
		return smtName(t.name)
	}
	return "t" + strconv.Itoa(t.id)
}

func (t *Term) body() string {
	var sb strings.Builder
	switch t.op {
	case OpSel:
		fmt.Fprintf(&sb, "(select %s %s)", smtName(t.name), t.a[0].ref())
	case OpExtract:
		fmt.Fprintf(&sb, "((_ extract %d %d) %s)", t.c>>8, t.c&0xff, t.a[0].ref())
	case OpZExt:
		fmt.Fprintf(&sb, "((_ zero_extend %d) %s)", t.w-t.a[0].w, t.a[0].ref())
	case OpSExt:
		fmt.Fprintf(&sb, "((_ sign_extend %d) %s)", t.w-t.a[0].w, t.a[0].ref())
	case OpUF:
		if len(t.a) == 0 {
			sb.WriteString(smtName(t.name))
			break
		}
		sb.WriteString("(" + smtName(t.name))
		for _, x := range t.a {
			sb.WriteString(" " + x.ref())
		}
		sb.WriteString(")")
	default:
		sb.WriteString("(" + opNames[t.op])
		for _, x := range t.a {
			sb.WriteString(" " + x.ref())
		}
		sb.WriteString(")")
	}
	return sb.String()
}

// String renders a term for diagnostics (inline, depth-limited).
func (t *Term) String() string { return t.str(6) }

func (t *Term) str(d int) string {
	switch t.op {
	case OpConst:
		if t.w == 0 {
			return constStr(t)
		}
		return strconv.FormatUint(t.c, 10)
	case OpVar:
		return t.name
	}
	if d == 0 {
		return "…"
	}
	var sb strings.Builder
	switch t.op {
	case OpSel:
		fmt.Fprintf(&sb, "%s[%s]", t.name, t.a[0].str(d-1))
	case OpExtract:
		fmt.Fprintf(&sb, "%s[%d:%d]", t.a[0].str(d-1), t.c>>8, t.c&0xff)
	case OpZExt:
		fmt.Fprintf(&sb, "zx%d(%s)", t.w, t.a[0].str(d-1))
	case OpSExt:
		fmt.Fprintf(&sb, "sx%d(%s)", t.w, t.a[0].str(d-1))
	case OpUF:
		sb.WriteString(t.name + "(")
		for i, x := range t.a {
			if i > 0 {
				sb.WriteString(",")
			}
			sb.WriteString(x.str(d - 1))
		}
		sb.WriteString(")")
	default:
		sb.WriteString("(" + opNames[t.op])
		for _, x := range t.a {
			sb.WriteString(" " + x.str(d-1))
		}
		sb.WriteString(")")
	}
	return sb.String()
}

// eval evaluates a term under a model (variables, base-array bytes, UF not supported).
type Model struct {
	vars       map[string]uint64
	arrs       map[string]map[uint64]uint8
	arrDefault map[string]uint8
}

func (m *Model) eval(t *Term, memo map[*Term]uint64) (uint64, bool) {
	if v, ok := memo[t]; ok {
		return v, true
	}
	var r uint64
	switch t.op {
	case OpConst:
		return t.c, true
	case OpVar:
		v, ok := m.vars[t.name]
		if !ok {
			return 0, false
		}
		r = v
	case OpSel:
		i, ok := m.eval(t.a[0], memo)
		if !ok {
			return 0, false
		}
		a, ok := m.arrs[t.name]
		if !ok {
			return 0, false
		}
		b, ok := a[i]
		if !ok {
			return 0, false
		}
		r = uint64(b)
	case OpUF:
		return 0, false
	default:
		var xs [3]uint64
		for i, a := range t.a {
			// lazy for ite
			if t.op == OpIte && i > 0 {
				break
			}
			v, ok := m.eval(a, memo)
			if !ok {
				return 0, false
			}
			xs[i] = v
		}
		w := t.w
		if len(t.a) > 0 && t.a[0].w != 0 {
			w = t.a[0].w
		}
		switch t.op {
		case OpIte:
			var ok bool
			if xs[0] != 0 {
				r, ok = m.eval(t.a[1], memo)
			} else {
				r, ok = m.eval(t.a[2], memo)
			}
			if !ok {
				return 0, false
			}
		case OpAdd:
			r = xs[0] + xs[1]
		case OpSub:
			r = xs[0] - xs[1]
		case OpMul:
			r = xs[0] * xs[1]
		case OpUDiv:
			if xs[1] == 0 {
				r = mask(w)
			} else {
				r = xs[0] / xs[1]
			}
		case OpURem:
			if xs[1] == 0 {
				r = xs[0]
			} else {
				r = xs[0] % xs[1]
			}
		case OpSDiv, OpSRem:
			x, y := signExt(xs[0], w), signExt(xs[1], w)
			if y == 0 || y == -1 {
				return 0, false
			}
			if t.op == OpSDiv {
				r = uint64(x / y)
			} else {
				r = uint64(x % y)
			}
		case OpAnd:
			r = xs[0] & xs[1]
		case OpOr:
			r = xs[0] | xs[1]
		case OpXor:
			r = xs[0] ^ xs[1]
		case OpNot:
			r = ^xs[0]
		case OpNeg:
			r = -xs[0]
		case OpShl:
			if xs[1] >= uint64(w) {
				r = 0
			} else {
				r = xs[0] << xs[1]
			}
		case OpLShr:
			if xs[1] >= uint64(w) {
				r = 0
			} else {
				r = xs[0] >> xs[1]
			}
		case OpAShr:
			sh := xs[1]
			if sh >= uint64(w) {
				sh = uint64(w) - 1
			}
			r = uint64(signExt(xs[0], w) >> sh)
		case OpConcat:
			r = xs[0]<<uint(t.a[1].w) | xs[1]
		case OpExtract:
			r = xs[0] >> (t.c & 0xff)
		case OpZExt:
			r = xs[0]
		case OpSExt:
			r = uint64(signExt(xs[0], t.a[0].w))
		case OpEq:
			r = b2u(xs[0] == xs[1])
		case OpUlt:
			r = b2u(xs[0] < xs[1])
		case OpUle:
			r = b2u(xs[0] <= xs[1])
		case OpSlt:
			r = b2u(signExt(xs[0], w) < signExt(xs[1], w))
		case OpSle:
			r = b2u(signExt(xs[0], w) <= signExt(xs[1], w))
		case OpBAnd:
			r = xs[0] & xs[1]
		case OpBOr:
			r = xs[0] | xs[1]
		case OpBNot:
			r = 1 - xs[0]
		default:
			return 0, false
		}
	}
	if t.w != 0 {
		r &= mask(t.w)
	} else {
		r &= 1
	}
	memo[t] = r
	return r, true
}

func b2u(b bool) uint64 {
	if b {
		return 1
	}
	return 0
}

// rawRange builds lo <= v <= hi (unsigned) without interval folding; used to
// assert the declared range of a fresh variable.
func rawRange(v *Term, lo, hi uint64) *Term {
	r := tTrue
	if lo > 0 {
		r = mk(OpBNot, 0, 0, "", mk(OpUlt, 0, 0, "", v, BV(lo, v.w)))
	}
	if hi < mask(v.w) {
		u := mk(OpBNot, 0, 0, "", mk(OpUlt, 0, 0, "", BV(hi, v.w), v))
		if r == tTrue {
			r = u
		} else {
			r = mk(OpBAnd, 0, 0, "", r, u)
		}
	}
	return r
}
