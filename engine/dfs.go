package main

// Stateless depth-first exploration with deterministic replay. A path is a
// sequence of decisions; the harness is re-executed from its entry for every
// path following the recorded prefix. Every operation that consults the solver
// gets a stack entry so that re-execution of the prefix costs no query.

import (
	"encoding/hex"
	"fmt"
	"os"
	"sort"
	"strings"
	"time"
)

var debugSite = os.Getenv("SYMGO_DEBUG_SITE")
var debugCount int

type decision struct {
	kind        string // "branch", "choice", "assert", "assume"
	opts        []int  // feasible options still to take, opts[0] is current
	nopts       int
	levelBefore int
	pushed      bool
	site        string
	summary     Value
	val         uint64
}

type inputDecl struct {
	name   string
	kind   string // "int", "bool", "bytes"
	t      *Term  // value (int/bool) or length (bytes)
	arr    string // base array name (bytes)
	maxLen int
	w      int
	signed bool
}

type logItem struct {
	tag  string
	vals []interface{} // *Term, string, or byteSnap
}

type byteSnap struct {
	arr      *Arr
	off, len *Term
	max      int
}

type Violation struct {
	Label   string                 `json:"label"`
	Kind    string                 `json:"kind"` // assert | panic | alloc | deadlock
	Site    string                 `json:"site"`
	Detail  string                 `json:"detail,omitempty"`
	Inputs  map[string]interface{} `json:"inputs"`
	Choices []int                  `json:"choices"`
	Path    int                    `json:"path"`
	Stack   []string               `json:"stack,omitempty"`
}

type TraceRec struct {
	Inputs  map[string]interface{} `json:"inputs"`
	Choices []int                  `json:"choices"`
	Log     []string               `json:"log"`
	Outcome string                 `json:"outcome"`
}

type pathEnd struct {
	outcome string // ok, infeasible, violation, unsupported, unwind, unknown, pruned
	detail  string
}

type Engine struct {
	solver    *Solver
	stack     []*decision
	depth     int
	flipIndex int
	known     map[*Term]bool
	pathConds []*Term
	inputs    []inputDecl
	nameCount map[string]int
	choices   []int
	logs      []logItem
	covers    map[string]int // label -> number of paths that hit it
	pathCov   map[string]bool

	// statistics / results
	paths, decisionsTotal int
	okPaths               int
	infeasiblePaths       int
	violations            []Violation
	vioKeys               map[string]bool
	inconclusive          []string
	incKeys               map[string]bool
	traces                []TraceRec
	samples               []TraceRec
	maxViolationsPerKey   int
	traceEvery            int
	maxTraces             int
	maxPaths              int
	deadline              time.Time
	unwind                int
	allocLimit            uint64

	summarised    map[string]bool
	siteHist      map[string]int
	funcsExecuted map[string]bool
	intrinsicsHit map[string]bool
	stubsHit      map[string]bool
	assumptions   map[string]bool
	pathUnknown   bool
	pathDep       uint8
	unvalidatable int
	flatBin       string
	flatTimeoutMs int
	flatFirst     bool
	incUnknowns   int
	lastFlat      bool
	lastFlatConds []*Term
	extraScoped   []*Term
	keepOpen      bool
	callStack     []string
}

func NewEngine(s *Solver) *Engine {
	return &Engine{solver: s, covers: map[string]int{}, vioKeys: map[string]bool{}, incKeys: map[string]bool{},
		funcsExecuted: map[string]bool{}, summarised: map[string]bool{}, siteHist: map[string]int{}, intrinsicsHit: map[string]bool{}, stubsHit: map[string]bool{},
		assumptions: map[string]bool{}, maxViolationsPerKey: 1, traceEvery: 1, maxTraces: 50, unwind: 64,
		allocLimit: 0}
}

// check decides pc ∧ extra: incremental solver first (short time slice), then
// a one-shot solver on the flattened path condition.
func (e *Engine) check(extra *Term) SatResult {
	e.lastFlat = false
	if extra == tFalse {
		return Unsat
	}
	if !e.flatFirst {
		r := e.solver.Check(extra)
		if r != Unknown || e.flatBin == "" || len(e.solver.errs) > 0 {
			return r
		}
		e.solver.nUnknown--
		e.incUnknowns++
		if e.incUnknowns >= 3 {
			e.flatFirst = true
		}
	}
	conds := append(append([]*Term(nil), e.pathConds...), e.extraScoped...)
	if extra != nil {
		conds = append(conds, extra)
	}
	r, _ := FlatCheck(e.flatBin, conds, nil, e.flatTimeoutMs, "chk")
	if r == Sat {
		e.lastFlat = true
		e.lastFlatConds = conds
	}
	if r == Unknown {
		e.solver.nUnknown++
	}
	return r
}

// values evaluates terms in the model of the last Sat answer.
func (e *Engine) values(ts []*Term) ([]uint64, bool) {
	if len(ts) == 0 {
		return nil, true
	}
	if e.lastFlat {
		// every one-shot call may come back with another model (two solvers race): values
		// already handed out are pinned so that all rounds of one extraction describe ONE model
		r, vals := FlatCheck(e.flatBin, e.lastFlatConds, ts, e.flatTimeoutMs, "val")
		if r != Sat || vals == nil {
			return nil, false
		}
		conds := append([]*Term(nil), e.lastFlatConds...)
		for i, t := range ts {
			if t.op == OpConst {
				continue
			}
			if t.w == 0 {
				if vals[i] != 0 {
					conds = append(conds, t)
				} else {
					conds = append(conds, Not(t))
				}
			} else {
				conds = append(conds, Eq(t, BV(vals[i], t.w)))
			}
		}
		e.lastFlatConds = conds
		return vals, true
	}
	return e.solver.GetValues(ts)
}

func (e *Engine) beginPath() {
	e.depth = 0
	e.known = map[*Term]bool{}
	e.pathConds = e.pathConds[:0]
	e.inputs = e.inputs[:0]
	e.nameCount = map[string]int{}
	e.choices = e.choices[:0]
	e.logs = e.logs[:0]
	e.pathCov = map[string]bool{}
	e.pathUnknown = false
	e.pathDep = 0
	e.callStack = e.callStack[:0]
	objCounter = 0
	e.flipIndex = len(e.stack) - 1
	if e.flipIndex < 0 {
		e.flipIndex = 0
		e.solver.PopTo(0)
	} else {
		e.solver.PopTo(e.stack[e.flipIndex].levelBefore)
	}
}

func (e *Engine) sending() bool { return e.depth >= e.flipIndex }

// backtrack advances the decision stack to the next unexplored path; false when done.
func (e *Engine) backtrack() bool {
	// drop decisions that were not reached by the last path (cannot happen: paths are deterministic)
	for len(e.stack) > 0 {
		top := e.stack[len(e.stack)-1]
		if len(top.opts) > 1 {
			top.opts = top.opts[1:]
			return true
		}
		e.stack = e.stack[:len(e.stack)-1]
	}
	return false
}

func (e *Engine) freshName(base string) string {
	n := e.nameCount[base]
	e.nameCount[base] = n + 1
	if n == 0 {
		return base
	}
	return fmt.Sprintf("%s#%d", base, n)
}

func (e *Engine) setKnown(c *Term, v bool) {
	for c.op == OpBNot {
		c = c.a[0]
		v = !v
	}
	e.known[c] = v
	if c.op == OpBAnd && v {
		e.setKnown(c.a[0], true)
		e.setKnown(c.a[1], true)
	}
	if c.op == OpBOr && !v {
		e.setKnown(c.a[0], false)
		e.setKnown(c.a[1], false)
	}
}

func (e *Engine) lookupKnown(c *Term) (bool, bool) {
	neg := false
	for c.op == OpBNot {
		c = c.a[0]
		neg = !neg
	}
	if v, ok := e.known[c]; ok {
		return v != neg, true
	}
	// structural: and/or of known parts
	if c.op == OpBAnd || c.op == OpBOr {
		a, oka := e.lookupKnown(c.a[0])
		b, okb := e.lookupKnown(c.a[1])
		if c.op == OpBAnd {
			if (oka && !a) || (okb && !b) {
				return neg, true
			}
			if oka && okb {
				return (a && b) != neg, true
			}
		} else {
			if (oka && a) || (okb && b) {
				return !neg, true
			}
			if oka && okb {
				return (a || b) != neg, true
			}
		}
	}
	return false, false
}

func (e *Engine) condOf(c *Term, v bool) *Term {
	if v {
		return c
	}
	return Not(c)
}

func (e *Engine) checkBudget() {
	if !e.deadline.IsZero() && time.Now().After(e.deadline) {
		panic(pathEnd{"budget", "time budget exhausted"})
	}
}

// Branch decides a boolean condition on the current path.
func (e *Engine) Branch(c *Term, site string) bool {
	if c.IsConst() {
		return c.c != 0
	}
	if v, ok := e.lookupKnown(c); ok {
		return v
	}
	var dec *decision
	if e.depth < len(e.stack) {
		dec = e.stack[e.depth]
		if dec.kind != "branch" {
			panic(fmt.Sprintf("replay divergence at depth %d: expected %s got branch at %s (was %s)", e.depth, dec.kind, site, dec.site))
		}
	} else {
		e.checkBudget()
		dec = &decision{kind: "branch", nopts: 2, site: site, levelBefore: e.solver.level}
		rt := e.check(c)
		switch rt {
		case Unsat:
			dec.opts = []int{0}
		default:
			rf := e.check(Not(c))
			if rt == Unknown || rf == Unknown {
				e.noteUnknown(site)
			}
			switch {
			case rf == Unsat && rt == Sat:
				dec.opts = []int{1}
			case rf == Unsat && rt == Unknown:
				dec.opts = []int{1}
			case rt == Unknown && rf == Sat:
				dec.opts = []int{0, 1} // keep both (sound: unknown = keep)
			default:
				dec.opts = []int{1, 0}
			}
		}
		dec.pushed = len(dec.opts) > 1
		e.stack = append(e.stack, dec)
		e.decisionsTotal++
		if len(dec.opts) > 1 {
			e.siteHist[site]++
			if debugSite != "" && strings.Contains(site, debugSite) && debugCount < 3 {
				debugCount++
				if e.checkPath() == Sat {
					if in, _, ok := e.modelInputs(); ok {
						fmt.Fprintf(os.Stderr, "DEBUG fork at %s cond=%s inputs=%v\n", site, c, in)
					}
				}
			}
		}
	}
	v := dec.opts[0] == 1
	if dec.pushed && e.sending() {
		e.solver.Push()
		e.solver.Assert(e.condOf(c, v))
	}
	e.depth++
	e.setKnown(c, v)
	e.pathConds = append(e.pathConds, e.condOf(c, v))
	if dec.pushed {
		e.pathDep |= c.dep
	}
	return v
}

func (e *Engine) noteUnknown(site string) {
	e.pathUnknown = true
	e.addInconclusive("solver-unknown at " + site)
}

func (e *Engine) addInconclusive(s string) {
	if !e.incKeys[s] {
		e.incKeys[s] = true
		e.inconclusive = append(e.inconclusive, s)
	}
}

// Choice is a k-ary control decision (all options explored).
func (e *Engine) Choice(k int, site string) int {
	if k <= 1 {
		return 0
	}
	var dec *decision
	if e.depth < len(e.stack) {
		dec = e.stack[e.depth]
		if dec.kind != "choice" {
			panic(fmt.Sprintf("replay divergence at depth %d: expected %s got choice at %s", e.depth, dec.kind, site))
		}
	} else {
		e.checkBudget()
		dec = &decision{kind: "choice", nopts: k, site: site, levelBefore: e.solver.level}
		for i := 0; i < k; i++ {
			dec.opts = append(dec.opts, i)
		}
		e.stack = append(e.stack, dec)
		e.decisionsTotal++
	}
	e.depth++
	e.choices = append(e.choices, dec.opts[0])
	return dec.opts[0]
}

// PickValue returns some value of t that is feasible under the path condition.
func (e *Engine) PickValue(t *Term, site string) uint64 {
	if t.IsConst() {
		return t.c
	}
	if e.depth < len(e.stack) {
		d := e.stack[e.depth]
		if d.kind != "pick" {
			panic(fmt.Sprintf("replay divergence at depth %d: expected %s got pick at %s", e.depth, d.kind, site))
		}
		e.depth++
		return d.val
	}
	d := &decision{kind: "pick", nopts: 1, opts: []int{0}, site: site, levelBefore: e.solver.level}
	if e.checkPath() != Sat {
		e.noteUnknown("pick " + site)
		panic(pathEnd{"unknown", "pick " + site})
	}
	vals, ok := e.values([]*Term{t})
	if !ok {
		panic(pathEnd{"unknown", "pick " + site})
	}
	d.val = vals[0]
	e.stack = append(e.stack, d)
	e.depth++
	return d.val
}

// Assume adds c to the path condition; the path is dropped if infeasible.
func (e *Engine) Assume(c *Term, site string) {
	if c == tTrue {
		return
	}
	if v, ok := e.lookupKnown(c); ok && v {
		return
	}
	var dec *decision
	if e.depth < len(e.stack) {
		dec = e.stack[e.depth]
		if dec.kind != "assume" {
			panic(fmt.Sprintf("replay divergence at depth %d: expected %s got assume at %s", e.depth, dec.kind, site))
		}
	} else {
		dec = &decision{kind: "assume", nopts: 1, site: site, levelBefore: e.solver.level}
		r := Unsat
		if c != tFalse {
			r = e.check(c)
		}
		if r == Unknown {
			e.noteUnknown(site)
		}
		if r == Unsat {
			dec.opts = []int{0}
		} else {
			dec.opts = []int{1}
		}
		e.stack = append(e.stack, dec)
	}
	if dec.opts[0] == 0 {
		e.depth++
		panic(pathEnd{"infeasible", "assume " + site})
	}
	if e.sending() {
		e.solver.Assert(c)
	}
	e.depth++
	e.setKnown(c, true)
	e.pathConds = append(e.pathConds, c)
}

// AssumeFresh adds a constraint that is satisfiable by construction (range of a
// fresh variable); no feasibility query.
func (e *Engine) AssumeFresh(c *Term) {
	if c == tTrue {
		return
	}
	if e.sending() {
		e.solver.Assert(c)
	}
	e.setKnown(c, true)
	e.pathConds = append(e.pathConds, c)
}

// Assert checks that c holds on every extension of the current path condition.
func (e *Engine) Assert(c *Term, label, site string) {
	if c == tTrue {
		return
	}
	if v, ok := e.lookupKnown(c); ok && v {
		return
	}
	var dec *decision
	if e.depth < len(e.stack) {
		dec = e.stack[e.depth]
		if dec.kind != "assert" {
			panic(fmt.Sprintf("replay divergence at depth %d: expected %s got assert at %s", e.depth, dec.kind, site))
		}
		e.depth++
	} else {
		e.checkBudget()
		dec = &decision{kind: "assert", nopts: 1, site: site, levelBefore: e.solver.level}
		e.stack = append(e.stack, dec)
		e.depth++
		nc := Not(c)
		r := e.checkKeep(nc)
		if r == Sat {
			dec.opts = []int{0}
			e.recordViolation("assert", label, site, "")
			e.releaseKeep()
		} else {
			e.releaseKeep()
			if r == Unknown {
				e.noteUnknown("assert " + label + " at " + site)
			}
			dec.opts = []int{1}
		}
	}
	if dec.opts[0] == 0 {
		panic(pathEnd{"violation", label})
	}
	// c is implied by the path condition: remember it without asserting
	e.setKnown(c, true)
}

// checkKeep is check(extra) but, for an incremental Sat answer, leaves the
// temporary scope open so that the model can be read; releaseKeep closes it.
func (e *Engine) checkKeep(extra *Term) SatResult {
	e.lastFlat = false
	e.keepOpen = false
	if !e.flatFirst {
		s := e.solver
		s.define(extra)
		s.raw("(push 1)")
		s.tmpLevel = 1
		s.define(extra)
		s.raw("(assert " + extra.ref() + ")")
		r := s.checkSat()
		e.keepOpen = true
		if r != Unknown || e.flatBin == "" || len(s.errs) > 0 {
			return r
		}
		s.nUnknown--
		e.incUnknowns++
		if e.incUnknowns >= 3 {
			e.flatFirst = true
		}
	}
	conds := append(append([]*Term(nil), e.pathConds...), extra)
	r, _ := FlatCheck(e.flatBin, conds, nil, e.flatTimeoutMs, "assert")
	if r == Sat {
		e.lastFlat = true
		e.lastFlatConds = conds
	}
	if r == Unknown {
		e.solver.nUnknown++
	}
	return r
}

func (e *Engine) releaseKeep() {
	if e.keepOpen {
		e.solver.raw("(pop 1)")
		e.solver.tmpLevel = 0
		e.solver.forgetAbove(e.solver.level)
		e.keepOpen = false
	}
	e.lastFlat = false
}

// checkPath decides the current path condition itself (for model extraction).
func (e *Engine) checkPath() SatResult {
	e.lastFlat = false
	if !e.flatFirst {
		r := e.solver.checkSat()
		if r != Unknown || e.flatBin == "" {
			return r
		}
		e.solver.nUnknown--
	}
	conds := append([]*Term(nil), e.pathConds...)
	r, _ := FlatCheck(e.flatBin, conds, nil, e.flatTimeoutMs, "path")
	if r == Sat {
		e.lastFlat = true
		e.lastFlatConds = conds
	}
	return r
}

// Fail reports a violation that holds on the whole current path (e.g. a Go panic).
func (e *Engine) Fail(kind, label, site, detail string) {
	if e.depth < len(e.stack) {
		// replayed prefix cannot contain a failure (it would have ended the path)
		panic(fmt.Sprintf("replay divergence: failure %s inside prefix", label))
	}
	r := e.checkPath()
	if r == Sat {
		e.recordViolation(kind, label, site, detail)
	} else if r == Unknown {
		e.noteUnknown("fail " + label)
	}
	panic(pathEnd{"violation", label})
}

// Report records a violation that holds on the whole current path and lets the path continue.
func (e *Engine) Report(kind, label, site, detail string) {
	if e.vioKeys[kind+"|"+label+"|"+site] {
		return
	}
	r := e.checkPath()
	if r == Sat {
		e.recordViolation(kind, label, site, detail)
	} else if r == Unknown {
		e.noteUnknown("report " + label)
	}
}

func (e *Engine) modelInputs() (map[string]interface{}, *Model, bool) {
	// the solver is in a Sat state
	var ts []*Term
	for _, in := range e.inputs {
		ts = append(ts, in.t)
	}
	vals, ok := e.values(ts)
	if !ok {
		return nil, nil, false
	}
	m := &Model{vars: map[string]uint64{}, arrs: map[string]map[uint64]uint8{}}
	res := map[string]interface{}{}
	var bts []*Term
	type span struct {
		name     string
		from, to int
	}
	var spans []span
	for i, in := range e.inputs {
		switch in.kind {
		case "int":
			if in.signed {
				res[in.name] = signExt(vals[i], in.w)
			} else {
				res[in.name] = vals[i]
			}
			m.vars[in.t.name] = vals[i]
		case "bool":
			res[in.name] = vals[i] != 0
			m.vars[in.t.name] = vals[i]
		case "bytes":
			n := int(vals[i])
			if n > in.maxLen {
				n = in.maxLen
			}
			if in.t.op == OpVar {
				m.vars[in.t.name] = vals[i]
			}
			from := len(bts)
			for k := 0; k < n; k++ {
				bts = append(bts, SelBase(in.arr, BV(uint64(k), 64)))
			}
			spans = append(spans, span{in.name, from, len(bts)})
			m.arrs[in.arr] = map[uint64]uint8{}
		}
	}
	bvals, ok := e.values(bts)
	if !ok {
		return nil, nil, false
	}
	for _, sp := range spans {
		b := make([]byte, sp.to-sp.from)
		for k := range b {
			b[k] = byte(bvals[sp.from+k])
		}
		res[sp.name] = hex.EncodeToString(b)
	}
	for _, in := range e.inputs {
		if in.kind == "bytes" {
			b, _ := hex.DecodeString(res[in.name].(string))
			for k, x := range b {
				m.arrs[in.arr][uint64(k)] = x
			}
		}
	}
	return res, m, true
}

func (e *Engine) recordViolation(kind, label, site, detail string) {
	key := kind + "|" + label + "|" + site
	if e.vioKeys[key] {
		return
	}
	inputs, _, ok := e.modelInputs()
	if !ok {
		e.addInconclusive("model extraction failed for " + label)
		return
	}
	e.vioKeys[key] = true
	v := Violation{Label: label, Kind: kind, Site: site, Detail: detail, Inputs: inputs,
		Choices: append([]int(nil), e.choices...), Path: e.paths}
	v.Stack = append(v.Stack, e.callStack...)
	e.violations = append(e.violations, v)
}

func (e *Engine) Cover(label string) {
	e.pathCov[label] = true
}

func (e *Engine) Log(tag string, vals ...interface{}) {
	e.logs = append(e.logs, logItem{tag, vals})
}

// endOfPath is called when the harness returned normally.
func (e *Engine) finishPath(outcome string) {
	e.paths++
	if outcome == "ok" {
		e.okPaths++
		for l := range e.pathCov {
			e.covers[l]++
		}
		want := len(e.traces) < e.maxTraces && (e.okPaths-1)%e.traceEvery == 0
		if e.pathDep != 0 {
			// the path's control flow depends on the virtual clock or on an unspecified
			// runtime choice: the native twin cannot pin those, so it is not replay-validated
			want = false
			e.unvalidatable++
		}
		if want || len(e.samples) < 3 {
			if e.checkPath() == Sat {
				if tr, ok := e.buildTrace(); ok {
					if want {
						e.traces = append(e.traces, tr)
					}
					if len(e.samples) < 3 {
						e.samples = append(e.samples, tr)
					}
				}
			}
		}
	} else if outcome == "infeasible" {
		e.infeasiblePaths++
	}
}

func (e *Engine) buildTrace() (TraceRec, bool) {
	inputs, _, ok := e.modelInputs()
	if !ok {
		return TraceRec{}, false
	}
	tr := TraceRec{Inputs: inputs, Choices: append([]int(nil), e.choices...), Outcome: "ok"}
	// evaluate log terms under the model via the solver
	var ts []*Term
	for _, li := range e.logs {
		for _, v := range li.vals {
			switch x := v.(type) {
			case *Term:
				ts = append(ts, x)
			case byteSnap:
				ts = append(ts, x.len)
			}
		}
	}
	vals, ok := e.values(ts)
	if !ok {
		return TraceRec{}, false
	}
	// second round for byte contents
	var bts []*Term
	k := 0
	type bs struct{ n int }
	var lens []int
	for _, li := range e.logs {
		for _, v := range li.vals {
			switch x := v.(type) {
			case *Term:
				k++
			case byteSnap:
				n := int(vals[k])
				if n > x.max {
					n = x.max
				}
				lens = append(lens, n)
				for j := 0; j < n; j++ {
					bts = append(bts, x.arr.Select(Add(x.off, I64(int64(j)))))
				}
				k++
			}
		}
	}
	bvals, ok := e.values(bts)
	if !ok {
		return TraceRec{}, false
	}
	k = 0
	bi := 0
	li2 := 0
	for _, li := range e.logs {
		var sb strings.Builder
		sb.WriteString(li.tag)
		for _, v := range li.vals {
			sb.WriteByte(' ')
			switch x := v.(type) {
			case *Term:
				if x.w == 0 {
					sb.WriteString(fmt.Sprint(vals[k] != 0))
				} else {
					sb.WriteString(fmt.Sprint(vals[k]))
				}
				k++
			case string:
				sb.WriteString(x)
			case byteSnap:
				n := lens[li2]
				li2++
				b := make([]byte, n)
				for j := range b {
					b[j] = byte(bvals[bi])
					bi++
				}
				sb.WriteString(hex.EncodeToString(b))
				k++
			}
		}
		tr.Log = append(tr.Log, sb.String())
	}
	return tr, true
}

func sortedKeys(m map[string]bool) []string {
	var ks []string
	for k := range m {
		ks = append(ks, k)
	}
	sort.Strings(ks)
	return ks
}
