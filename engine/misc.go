package main

import (
	"go/ast"
	"strings"

	"golang.org/x/tools/go/ssa"
)

// replacementTarget extracts "//verif:replace <callee full name>" from the doc
// comment of a harness function.
func replacementTarget(in *Interp, f *ssa.Function) string {
	fd, ok := f.Syntax().(*ast.FuncDecl)
	if !ok || fd.Doc == nil {
		return ""
	}
	for _, c := range fd.Doc.List {
		if i := strings.Index(c.Text, "verif:replace! "); i >= 0 {
			// replacement that the native twin reproduces with the real callee (same observable behaviour)
			t := strings.TrimSpace(c.Text[i+len("verif:replace! "):])
			in.replaceCompat[t] = true
			return t
		}
		if i := strings.Index(c.Text, "verif:replace "); i >= 0 {
			return strings.TrimSpace(c.Text[i+len("verif:replace "):])
		}
	}
	return ""
}

// Go 1.23 runtime.growslice capacity for byte slices (element size 1).
var sizeClasses = []uint64{0, 8, 16, 24, 32, 48, 64, 80, 96, 112, 128, 144, 160, 176, 192, 208, 224, 240, 256, 288, 320, 352, 384, 416, 448, 480, 512, 576, 640, 704, 768, 896, 1024, 1152, 1280, 1408, 1536, 1792, 2048, 2304, 2688, 3072, 3200, 3456, 4096, 4864, 5376, 6144, 6528, 6784, 6912, 8192, 9472, 9728, 10240, 10880, 12288, 13568, 14336, 16384, 18432, 19072, 20480, 21760, 24576, 27264, 28672, 32768}

func roundupsize(n uint64) uint64 {
	if n <= 32768 {
		for _, c := range sizeClasses {
			if c >= n {
				return c
			}
		}
	}
	const page = 8192
	return (n + page - 1) / page * page
}

func growCapBytes(oldCap, newLen uint64) uint64 {
	newcap := oldCap
	doublecap := newcap + newcap
	if newLen > doublecap {
		newcap = newLen
	} else {
		const threshold = 256
		if oldCap < threshold {
			newcap = doublecap
		} else {
			for newcap < newLen {
				newcap += (newcap + 3*threshold) >> 2
			}
		}
	}
	return roundupsize(newcap)
}
