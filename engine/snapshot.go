package main

// Deep copy of the post-initialisation global state, so that package
// initialisers are interpreted once per harness instead of once per path.

type copier struct {
	memo map[interface{}]interface{}
}

func newCopier() *copier { return &copier{memo: map[interface{}]interface{}{}} }

func (c *copier) loc(l Loc) Loc {
	switch x := l.(type) {
	case nil:
		return nil
	case NilLoc:
		return x
	case *Cell:
		if x == nil {
			return x
		}
		if m, ok := c.memo[x]; ok {
			return m.(*Cell)
		}
		n := &Cell{}
		c.memo[x] = n
		n.v = c.val(x.v)
		return n
	case *StructLoc:
		if m, ok := c.memo[x]; ok {
			return m.(*StructLoc)
		}
		n := &StructLoc{fields: make([]Loc, len(x.fields)), typ: x.typ, id: x.id}
		c.memo[x] = n
		for i, f := range x.fields {
			n.fields[i] = c.loc(f)
		}
		return n
	case *ArrayLoc:
		if m, ok := c.memo[x]; ok {
			return m.(*ArrayLoc)
		}
		n := &ArrayLoc{elems: make([]Loc, len(x.elems)), elemT: x.elemT}
		c.memo[x] = n
		for i, e := range x.elems {
			n.elems[i] = c.loc(e)
		}
		return n
	case *ByteObj:
		if x == nil {
			return x
		}
		if m, ok := c.memo[x]; ok {
			return m.(*ByteObj)
		}
		n := &ByteObj{}
		*n = *x
		c.memo[x] = n
		return n
	case BytePtr:
		return BytePtr{obj: c.loc(x.obj).(*ByteObj), idx: x.idx}
	case ByteView:
		return ByteView{obj: c.loc(x.obj).(*ByteObj), off: x.off, n: x.n}
	}
	panic("copier: unknown loc")
}

func (c *copier) val(v Value) Value {
	switch x := v.(type) {
	case nil, *Term, FloatV, StrV, BArrV, BuiltinV, *Opaque, *opaqueMethod:
		return v
	case NilLoc, *Cell, *StructLoc, *ArrayLoc, *ByteObj, BytePtr, ByteView:
		return c.loc(x)
	case BSlice:
		if x.obj == nil {
			return x
		}
		return BSlice{obj: c.loc(x.obj).(*ByteObj), off: x.off, len: x.len, cap: x.cap}
	case GSlice:
		if x.arr == nil {
			return x
		}
		return GSlice{arr: c.loc(x.arr).(*ArrayLoc), off: x.off, len: x.len, cap: x.cap}
	case StructV:
		n := make(StructV, len(x))
		for i, f := range x {
			n[i] = c.val(f)
		}
		return n
	case ArrayV:
		n := make(ArrayV, len(x))
		for i, f := range x {
			n[i] = c.val(f)
		}
		return n
	case TupleV:
		n := make(TupleV, len(x))
		for i, f := range x {
			n[i] = c.val(f)
		}
		return n
	case IfaceV:
		return IfaceV{t: x.t, v: c.val(x.v)}
	case *Closure:
		if x == nil || len(x.env) == 0 {
			return x
		}
		if m, ok := c.memo[x]; ok {
			return m.(*Closure)
		}
		n := &Closure{fn: x.fn, env: make([]Value, len(x.env))}
		c.memo[x] = n
		for i, e := range x.env {
			n.env[i] = c.val(e)
		}
		return n
	case *MapObj:
		if x == nil {
			return x
		}
		if m, ok := c.memo[x]; ok {
			return m.(*MapObj)
		}
		n := &MapObj{id: x.id, entries: make([]mapEntry, len(x.entries))}
		c.memo[x] = n
		for i, e := range x.entries {
			n.entries[i] = mapEntry{c.val(e.k), c.val(e.v)}
		}
		return n
	case *ChanObj:
		if x == nil {
			return x
		}
		if m, ok := c.memo[x]; ok {
			return m.(*ChanObj)
		}
		n := &ChanObj{id: x.id, cap: x.cap, closed: x.closed, elemT: x.elemT}
		c.memo[x] = n
		for _, q := range x.q {
			n.q = append(n.q, c.val(q))
		}
		return n
	}
	panic("copier: unknown value type")
}
