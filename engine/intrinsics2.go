package main

import (
	"fmt"
	"go/types"
	"net"
	"strconv"
	"strings"

	"golang.org/x/tools/go/ssa"
)

type regFn func(name string, h intrinsic)

// ---- sync ------------------------------------------------------------------------

type poolState struct {
	free []Value
}

type mutexState struct {
	held    bool
	readers int
}

type syncState struct {
	mutexes  map[Loc]*mutexState
	wgs      map[Loc]*int64
	onces    map[Loc]bool
	onceDone map[Loc]bool
}

var syncSt syncState

func resetSync() {
	syncSt = syncState{mutexes: map[Loc]*mutexState{}, wgs: map[Loc]*int64{}, onces: map[Loc]bool{}, onceDone: map[Loc]bool{}}
}

func structField(l Loc, name string) Loc {
	sl := l.(*StructLoc)
	st := sl.typ.Underlying().(*types.Struct)
	for i := 0; i < st.NumFields(); i++ {
		if st.Field(i).Name() == name {
			return sl.fields[i]
		}
	}
	panic("no field " + name + " in " + sl.typ.String())
}

var poolAdversarial bool

func registerSyncIntrinsics(reg regFn) {
	reg("(*sync.Pool).Get", func(in *Interp, fr *frame, fn *ssa.Function, a []Value, site string) Value {
		p := a[0]
		ps := in.pools[p]
		if ps == nil {
			ps = &poolState{}
			in.pools[p] = ps
		}
		pick := -1
		if len(ps.free) > 0 {
			if poolAdversarial {
				k := in.e.Choice(len(ps.free)+1, "pool.Get:"+site)
				pick = k - 1 // 0 => fresh
			} else {
				pick = len(ps.free) - 1
			}
		}
		if pick >= 0 {
			v := ps.free[pick]
			ps.free = append(ps.free[:pick:pick], ps.free[pick+1:]...)
			markPooled(v, false)
			in.raceAcquire(p) // Put happens before the Get that returns the object
			return v
		}
		newFn := load(structField(p, "New")).(*Closure)
		if newFn == nil {
			return IfaceV{}
		}
		return in.call(fr, newFn, nil, nil, site)
	})
	reg("(*sync.Pool).Put", func(in *Interp, fr *frame, fn *ssa.Function, a []Value, site string) Value {
		p := a[0]
		ps := in.pools[p]
		if ps == nil {
			ps = &poolState{}
			in.pools[p] = ps
		}
		iv := a[1].(IfaceV)
		if iv.t == nil {
			return nil
		}
		// an object that is already in the pool's free set: two later Gets would hand the same
		// memory to two owners
		if bs, ok := iv.v.(BSlice); ok && bs.obj != nil {
			for _, f := range ps.free {
				if fb, ok := f.(IfaceV).v.(BSlice); ok && fb.obj == bs.obj {
					in.e.Report("pool", "a buffer was returned to a sync.Pool twice (two later owners would share it)", site, "double Put")
				}
			}
		}
		markPooled(iv, true)
		ps.free = append(ps.free, iv)
		in.raceRelease(p)
		return nil
	})
	lock := func(write bool) intrinsic {
		return func(in *Interp, fr *frame, fn *ssa.Function, a []Value, site string) Value {
			m := syncSt.mutexes[a[0]]
			if m == nil {
				m = &mutexState{}
				syncSt.mutexes[a[0]] = m
			}
			s := in.ensureSched()
			s.yield("lock:" + site)
			if write {
				if m.held || m.readers > 0 {
					s.block(func() bool { return !m.held && m.readers == 0 }, "mutex lock at "+site)
				}
				m.held = true
			} else {
				if m.held {
					s.block(func() bool { return !m.held }, "rwmutex rlock at "+site)
				}
				m.readers++
			}
			in.raceAcquire(a[0])
			return nil
		}
	}
	unlock := func(write bool) intrinsic {
		return func(in *Interp, fr *frame, fn *ssa.Function, a []Value, site string) Value {
			m := syncSt.mutexes[a[0]]
			if m == nil || (write && !m.held) || (!write && m.readers == 0) {
				panic(targetPanic{runtime: "sync: unlock of unlocked mutex", site: site})
			}
			if write {
				m.held = false
			} else {
				m.readers--
			}
			in.raceRelease(a[0])
			in.ensureSched().yield("unlock:" + site)
			return nil
		}
	}
	reg("(*sync.Mutex).Lock", lock(true))
	reg("(*sync.Mutex).Unlock", unlock(true))
	reg("(*sync.RWMutex).Lock", lock(true))
	reg("(*sync.RWMutex).Unlock", unlock(true))
	reg("(*sync.RWMutex).RLock", lock(false))
	reg("(*sync.RWMutex).RUnlock", unlock(false))
	reg("(*sync.Mutex).TryLock", func(in *Interp, fr *frame, fn *ssa.Function, a []Value, site string) Value {
		m := syncSt.mutexes[a[0]]
		if m == nil {
			m = &mutexState{}
			syncSt.mutexes[a[0]] = m
		}
		if m.held {
			return tFalse
		}
		m.held = true
		in.raceAcquire(a[0])
		return tTrue
	})
	reg("(*sync.Once).Do", func(in *Interp, fr *frame, fn *ssa.Function, a []Value, site string) Value {
		if syncSt.onces[a[0]] {
			// another caller is (or was) running f: Do returns only after f has returned
			if !syncSt.onceDone[a[0]] {
				key := a[0]
				in.ensureSched().block(func() bool { return syncSt.onceDone[key] }, "sync.Once.Do at "+site)
			}
			in.raceAcquire(a[0])
			return nil
		}
		syncSt.onces[a[0]] = true
		in.call(fr, a[1], nil, nil, site)
		syncSt.onceDone[a[0]] = true
		in.raceRelease(a[0])
		return nil
	})
	reg("(*sync.WaitGroup).Add", func(in *Interp, fr *frame, fn *ssa.Function, a []Value, site string) Value {
		c := syncSt.wgs[a[0]]
		if c == nil {
			c = new(int64)
			syncSt.wgs[a[0]] = c
		}
		d := a[1].(*Term)
		if !d.IsConst() {
			panic(unsupported("WaitGroup.Add with symbolic delta"))
		}
		*c += d.S()
		if *c < 0 {
			panic(targetPanic{runtime: "sync: negative WaitGroup counter", site: site})
		}
		in.ensureSched().yield("wg.Add:" + site)
		return nil
	})
	reg("(*sync.WaitGroup).Done", func(in *Interp, fr *frame, fn *ssa.Function, a []Value, site string) Value {
		c := syncSt.wgs[a[0]]
		if c == nil {
			c = new(int64)
			syncSt.wgs[a[0]] = c
		}
		*c--
		if *c < 0 {
			panic(targetPanic{runtime: "sync: negative WaitGroup counter", site: site})
		}
		in.raceRelease(a[0])
		in.ensureSched().yield("wg.Done:" + site)
		return nil
	})
	reg("(*sync.WaitGroup).Wait", func(in *Interp, fr *frame, fn *ssa.Function, a []Value, site string) Value {
		c := syncSt.wgs[a[0]]
		if c == nil || *c == 0 {
			in.raceAcquire(a[0])
			return nil
		}
		in.ensureSched().block(func() bool { return *c == 0 }, "WaitGroup.Wait at "+site)
		in.raceAcquire(a[0])
		return nil
	})

	// sync/atomic.Value: the interface value is kept in the struct's only field
	avField := func(a []Value, site string) Loc {
		sl, ok := a[0].(*StructLoc)
		if !ok {
			panic(targetPanic{runtime: "invalid memory address or nil pointer dereference (nil *atomic.Value)", site: site})
		}
		return sl.fields[0]
	}
	reg("(*sync/atomic.Value).Load", func(in *Interp, fr *frame, fn *ssa.Function, a []Value, site string) Value {
		in.ensureSched().yield("atomic:" + site)
		in.raceAtomic(avField(a, site), false, site)
		return load(avField(a, site))
	})
	reg("(*sync/atomic.Value).Store", func(in *Interp, fr *frame, fn *ssa.Function, a []Value, site string) Value {
		in.ensureSched().yield("atomic:" + site)
		in.raceAtomic(avField(a, site), true, site)
		store(avField(a, site), a[1])
		return nil
	})
	reg("(*sync/atomic.Value).Swap", func(in *Interp, fr *frame, fn *ssa.Function, a []Value, site string) Value {
		in.ensureSched().yield("atomic:" + site)
		f := avField(a, site)
		in.raceAtomic(f, true, site)
		old := load(f)
		store(f, a[1])
		return old
	})

	// sync/atomic.Pointer[T]: the pointer is kept in field v (index 2: _ noCopy-ish fields precede it)
	apField := func(a []Value, site string) Loc {
		sl, ok := a[0].(*StructLoc)
		if !ok {
			panic(targetPanic{runtime: "invalid memory address or nil pointer dereference (nil *atomic.Pointer)", site: site})
		}
		return sl.fields[len(sl.fields)-1]
	}
	apGet := func(l Loc) Value {
		v := load(l)
		if v == nil {
			return NilLoc{}
		}
		if t, ok := v.(*Term); ok && t.IsConst() && t.c == 0 {
			return NilLoc{}
		}
		return v
	}
	reg("(*sync/atomic.Pointer[T]).Load", func(in *Interp, fr *frame, fn *ssa.Function, a []Value, site string) Value {
		in.ensureSched().yield("atomic:" + site)
		f := apField(a, site)
		in.raceAtomic(f, false, site)
		return apGet(f)
	})
	reg("(*sync/atomic.Pointer[T]).Store", func(in *Interp, fr *frame, fn *ssa.Function, a []Value, site string) Value {
		in.ensureSched().yield("atomic:" + site)
		f := apField(a, site)
		in.raceAtomic(f, true, site)
		if c, ok := f.(*Cell); ok {
			c.v = a[1]
		} else {
			store(f, a[1])
		}
		return nil
	})
	reg("(*sync/atomic.Pointer[T]).Swap", func(in *Interp, fr *frame, fn *ssa.Function, a []Value, site string) Value {
		in.ensureSched().yield("atomic:" + site)
		f := apField(a, site)
		in.raceAtomic(f, true, site)
		old := apGet(f)
		f.(*Cell).v = a[1]
		return old
	})
	reg("(*sync/atomic.Pointer[T]).CompareAndSwap", func(in *Interp, fr *frame, fn *ssa.Function, a []Value, site string) Value {
		in.ensureSched().yield("atomic:" + site)
		f := apField(a, site)
		in.raceAtomic(f, true, site)
		old := apGet(f)
		if in.e.Branch(in.valueEq(old, a[1]), "cas:"+site) {
			f.(*Cell).v = a[2]
			return tTrue
		}
		return tFalse
	})

	// sync/atomic primitives (sequentially consistent; each is a visible operation)
	for _, ty := range []string{"Int32", "Int64", "Uint32", "Uint64", "Uintptr", "Pointer"} {
		ty := ty
		reg("sync/atomic.Load"+ty, func(in *Interp, fr *frame, fn *ssa.Function, a []Value, site string) Value {
			in.ensureSched().yield("atomic:" + site)
			in.raceAtomic(a[0], false, site)
			return load(a[0])
		})
		reg("sync/atomic.Store"+ty, func(in *Interp, fr *frame, fn *ssa.Function, a []Value, site string) Value {
			in.ensureSched().yield("atomic:" + site)
			in.raceAtomic(a[0], true, site)
			store(a[0], a[1])
			return nil
		})
		reg("sync/atomic.Swap"+ty, func(in *Interp, fr *frame, fn *ssa.Function, a []Value, site string) Value {
			in.ensureSched().yield("atomic:" + site)
			in.raceAtomic(a[0], true, site)
			old := load(a[0])
			store(a[0], a[1])
			return old
		})
		reg("sync/atomic.CompareAndSwap"+ty, func(in *Interp, fr *frame, fn *ssa.Function, a []Value, site string) Value {
			in.ensureSched().yield("atomic:" + site)
			in.raceAtomic(a[0], true, site)
			old := load(a[0])
			eq := in.valueEq(old, a[1])
			if in.e.Branch(eq, "cas:"+site) {
				store(a[0], a[2])
				return tTrue
			}
			return tFalse
		})
		if ty != "Pointer" {
			reg("sync/atomic.Add"+ty, func(in *Interp, fr *frame, fn *ssa.Function, a []Value, site string) Value {
				in.ensureSched().yield("atomic:" + site)
				in.raceAtomic(a[0], true, site)
				nv := Add(load(a[0]).(*Term), a[1].(*Term))
				store(a[0], nv)
				return nv
			})
			reg("sync/atomic.And"+ty, func(in *Interp, fr *frame, fn *ssa.Function, a []Value, site string) Value {
				in.raceAtomic(a[0], true, site)
				old := load(a[0]).(*Term)
				store(a[0], BvAnd(old, a[1].(*Term)))
				return old
			})
			reg("sync/atomic.Or"+ty, func(in *Interp, fr *frame, fn *ssa.Function, a []Value, site string) Value {
				in.raceAtomic(a[0], true, site)
				old := load(a[0]).(*Term)
				store(a[0], BvOr(old, a[1].(*Term)))
				return old
			})
		}
	}
}

func markPooled(v Value, pooled bool) {
	if iv, ok := v.(IfaceV); ok {
		if bs, ok := iv.v.(BSlice); ok && bs.obj != nil {
			bs.obj.pooled = pooled
		}
	}
}

// ---- time --------------------------------------------------------------------------

func (in *Interp) clock() *virtClock {
	if in.now == nil || in.now.sec0 == nil {
		sec0 := VarRange("clock.sec0", 64, 1600000000, 2000000000)
		ns0 := VarRange("clock.ns0", 64, 0, 999999999)
		in.e.AssumeFresh(rawRange(sec0, 1600000000, 2000000000))
		in.e.AssumeFresh(rawRange(ns0, 0, 999999999))
		in.e.inputs = append(in.e.inputs, inputDecl{name: "clock.sec0", kind: "int", t: sec0, w: 64},
			inputDecl{name: "clock.ns0", kind: "int", t: ns0, w: 64})
		el := int64(0)
		if in.now != nil {
			el = in.now.elapsed
		}
		in.now = &virtClock{sec0: sec0, ns0: ns0, elapsed: el}
	}
	return in.now
}

const monoBase = 1000000 // runtimeNano at virtual time zero

// nowParts returns Unix seconds, nanoseconds and the monotonic reading.
func (in *Interp) nowParts() (sec, nsec *Term, mono int64) {
	clk := in.clock()
	e := clk.elapsed
	esec, ens := e/1000000000, e%1000000000
	sum := Add(clk.ns0, I64(ens))
	carry := Uge(sum, I64(1000000000))
	nsec = Ite(carry, Sub(sum, I64(1000000000)), sum)
	sec = Add(Add(clk.sec0, I64(esec)), Ite(carry, I64(1), I64(0)))
	return sec, nsec, monoBase + e
}

// nowValue builds a time.Time for the current virtual instant by running time.Now from SSA.
func (in *Interp) nowValue() Value {
	p := in.prog.ImportedPackage("time")
	return in.callFunction(nil, p.Func("Now"), nil, nil, "timer")
}

func (in *Interp) timerFor(loc Loc) *timerEv {
	s := in.ensureSched()
	for _, t := range s.timers {
		if t.loc == loc {
			return t
		}
	}
	return nil
}

func concDuration(v Value, what string) int64 {
	d := v.(*Term)
	if !d.IsConst() {
		panic(unsupported(what + " with symbolic duration " + d.String()))
	}
	return d.S()
}

func registerTimeIntrinsics(reg regFn) {
	reg("time.now", func(in *Interp, fr *frame, fn *ssa.Function, a []Value, site string) Value {
		sec, nsec, mono := in.nowParts()
		return TupleV{sec, Extract(nsec, 31, 0), I64(mono)}
	})
	reg("time.runtimeNano", func(in *Interp, fr *frame, fn *ssa.Function, a []Value, site string) Value {
		if in.now == nil {
			return I64(monoBase) // before the clock exists no virtual time has passed
		}
		return I64(monoBase + in.now.elapsed)
	})
	reg("time.Sleep", func(in *Interp, fr *frame, fn *ssa.Function, a []Value, site string) Value {
		d := concDuration(a[0], "time.Sleep")
		s := in.ensureSched()
		if d <= 0 {
			s.yield("sleep:" + site)
			return nil
		}
		done := false
		s.addTimer(d, nil, func() { done = true }, 0)
		s.block(func() bool { return done }, "time.Sleep at "+site)
		return nil
	})
	newTimer := func(in *Interp, d int64, tname string, period int64) (*StructLoc, *ChanObj) {
		p := in.prog.ImportedPackage("time")
		tt := p.Type(tname).Type()
		loc := newLoc(tt).(*StructLoc)
		timeT := p.Type("Time").Type()
		ch := &ChanObj{id: nextID(), cap: 1, elemT: timeT}
		store(structField(loc, "C"), ch)
		ev := in.ensureSched().addTimer(d, ch, nil, period)
		ev.loc = loc
		return loc, ch
	}
	reg("time.NewTimer", func(in *Interp, fr *frame, fn *ssa.Function, a []Value, site string) Value {
		loc, _ := newTimer(in, concDuration(a[0], "time.NewTimer"), "Timer", 0)
		return loc
	})
	reg("time.After", func(in *Interp, fr *frame, fn *ssa.Function, a []Value, site string) Value {
		_, ch := newTimer(in, concDuration(a[0], "time.After"), "Timer", 0)
		return ch
	})
	reg("time.NewTicker", func(in *Interp, fr *frame, fn *ssa.Function, a []Value, site string) Value {
		d := concDuration(a[0], "time.NewTicker")
		if d <= 0 {
			panic(targetPanic{runtime: "non-positive interval for NewTicker", site: site})
		}
		loc, _ := newTimer(in, d, "Ticker", d)
		return loc
	})
	reg("time.AfterFunc", func(in *Interp, fr *frame, fn *ssa.Function, a []Value, site string) Value {
		d := concDuration(a[0], "time.AfterFunc")
		p := in.prog.ImportedPackage("time")
		loc := newLoc(p.Type("Timer").Type()).(*StructLoc)
		f := a[1]
		s := in.ensureSched()
		ev := s.addTimer(d, nil, nil, 0)
		ev.loc = loc
		ev.fn = func() {
			// runs in its own goroutine; arming the timer happens before the callback
			in.forkVC = ev.vc
			in.goStmt(&frame{in: in, g: in.curG, fn: fn}, f, nil, nil, "AfterFunc:"+site)
		}
		return loc
	})
	reg("(*time.Timer).Stop", func(in *Interp, fr *frame, fn *ssa.Function, a []Value, site string) Value {
		if isNilLoc(a[0]) {
			panic(targetPanic{runtime: "invalid memory address or nil pointer dereference", site: site})
		}
		t := in.timerFor(a[0])
		if t == nil {
			panic(targetPanic{runtime: "time: Stop called on uninitialized Timer", site: site})
		}
		was := t.active
		t.active = false
		return BoolT(was)
	})
	reg("(*time.Ticker).Stop", func(in *Interp, fr *frame, fn *ssa.Function, a []Value, site string) Value {
		if t := in.timerFor(a[0]); t != nil {
			t.active = false
		}
		return nil
	})
	reg("(*time.Timer).Reset", func(in *Interp, fr *frame, fn *ssa.Function, a []Value, site string) Value {
		if isNilLoc(a[0]) {
			panic(targetPanic{runtime: "invalid memory address or nil pointer dereference", site: site})
		}
		t := in.timerFor(a[0])
		if t == nil {
			panic(targetPanic{runtime: "time: Reset called on uninitialized Timer", site: site})
		}
		d := concDuration(a[1], "Timer.Reset")
		if d < 0 {
			d = 0
		}
		was := t.active
		s := in.ensureSched()
		t.active = true
		t.at = in.clock().elapsed + d
		s.timerSeq++
		t.seq = s.timerSeq
		// Go 1.23 timers: Reset discards a stale value pending in the channel
		if t.ch != nil {
			t.ch.q = nil
		}
		return BoolT(was)
	})
	// UnixNano / time.Unix(0, ns) round trip without 64-bit multiplication and division by 10^9
	// (which stall every solver): the nanosecond count is an uninterpreted, positive value that
	// remembers its (seconds, nanoseconds) components.
	reg("(time.Time).UnixNano", func(in *Interp, fr *frame, fn *ssa.Function, a []Value, site string) Value {
		p := in.prog.ImportedPackage("time")
		tt := p.Type("Time").Type()
		unix := in.prog.LookupMethod(tt, p.Pkg, "Unix")
		nano := in.prog.LookupMethod(tt, p.Pkg, "Nanosecond")
		sec := in.callFunction(fr, unix, []Value{a[0]}, nil, site).(*Term)
		ns := in.callFunction(fr, nano, []Value{a[0]}, nil, site).(*Term)
		if sec.IsConst() && ns.IsConst() {
			return I64(sec.S()*1000000000 + ns.S())
		}
		t := UF("unixnano", 64, sec, ns)
		in.e.AssumeFresh(Sgt(t, I64(0)))
		in.e.assumptions["Time.UnixNano of a symbolic instant is an uninterpreted positive value; time.Unix(0, that value) restores the instant (exact for instants between 1678 and 2262)"] = true
		return t
	})
	reg("time.Unix", func(in *Interp, fr *frame, fn *ssa.Function, a []Value, site string) Value {
		sec, ns := a[0].(*Term), a[1].(*Term)
		if sec.IsConst() && sec.c == 0 && ns.op == OpUF && ns.name == "unixnano" {
			p := in.prog.ImportedPackage("time")
			local := load(in.globalLoc(p.Var("Local")))
			const unixToInternal = 62135596800
			return StructV{ns.a[1], Add(ns.a[0], I64(unixToInternal)), local}
		}
		return in.callFn(fr, fn, a, nil, site)
	})
	reg("runtime.GOROOT", func(in *Interp, fr *frame, fn *ssa.Function, a []Value, site string) Value { return mkStr("/go") })
	// time.Until(zero Time): the repository disarms deadlines with SetReadDeadline(time.Time{}) and the
	// UDP connection then computes time.Until of it; Time.Sub's overflow test multiplies a symbolic
	// second count by 1e9 (stalls every solver). The zero Time lies > 292 years before any modelled
	// "now" (sec0 >= 1.6e9), so the result is the saturated minimum.
	reg("time.Until", func(in *Interp, fr *frame, fn *ssa.Function, a []Value, site string) Value {
		if sv, ok := a[0].(StructV); ok && len(sv) == 3 {
			w, ok1 := sv[0].(*Term)
			e, ok2 := sv[1].(*Term)
			if ok1 && ok2 && w.IsConst() && e.IsConst() && w.c == 0 && e.c == 0 {
				in.e.assumptions["time.Until(zero Time) = minimum Duration (the modelled wall clock is later than year 293)"] = true
				return BV(1<<63, 64)
			}
		}
		return in.callFn(fr, fn, a, nil, site)
	})
	reg("time.initLocal", func(in *Interp, fr *frame, fn *ssa.Function, a []Value, site string) Value { return nil })
	reg("syscall.Getenv", func(in *Interp, fr *frame, fn *ssa.Function, a []Value, site string) Value {
		return TupleV{mkStr(""), tFalse}
	})
	reg("os.Getenv", func(in *Interp, fr *frame, fn *ssa.Function, a []Value, site string) Value { return mkStr("") })
}

// ---- encoding/binary -------------------------------------------------------------------

func fixedSize(t types.Type) int {
	switch u := t.Underlying().(type) {
	case *types.Basic:
		w := basicWidth(u)
		if w == 0 {
			return 1
		}
		if w > 0 && u.Kind() != types.Int && u.Kind() != types.Uint && u.Kind() != types.Uintptr {
			return w / 8
		}
		return -1
	case *types.Array:
		n := fixedSize(u.Elem())
		if n < 0 {
			return -1
		}
		return n * int(u.Len())
	case *types.Struct:
		sum := 0
		for i := 0; i < u.NumFields(); i++ {
			n := fixedSize(u.Field(i).Type())
			if n < 0 {
				return -1
			}
			sum += n
		}
		return sum
	}
	return -1
}

func isBigEndian(order Value) bool {
	iv := order.(IfaceV)
	return strings.Contains(iv.t.String(), "bigEndian")
}

// decodeInto fills loc (of type t) from arr[off...]; returns bytes consumed.
func decodeInto(loc Loc, t types.Type, arr *Arr, off *Term, big bool) int {
	switch u := t.Underlying().(type) {
	case *types.Basic:
		w := basicWidth(u)
		if w == 0 {
			store(loc, Ne(arr.Select(off), BV(0, 8)))
			return 1
		}
		n := w / 8
		var v *Term
		for i := 0; i < n; i++ {
			b := arr.Select(Add(off, I64(int64(i))))
			if v == nil {
				v = b
			} else if big {
				v = Concat(v, b)
			} else {
				v = Concat(b, v)
			}
		}
		store(loc, v)
		return n
	case *types.Array:
		if isByteType(u.Elem()) {
			bo := loc.(*ByteObj)
			bo.arr = ArrCopy(bo.arr, I64(0), arr, off, I64(u.Len()))
			return int(u.Len())
		}
		al := loc.(*ArrayLoc)
		n := 0
		for _, e := range al.elems {
			n += decodeInto(e, u.Elem(), arr, Add(off, I64(int64(n))), big)
		}
		return n
	case *types.Struct:
		sl := loc.(*StructLoc)
		n := 0
		for i, f := range sl.fields {
			ft := u.Field(i).Type()
			if u.Field(i).Name() == "_" {
				n += fixedSize(ft)
				continue
			}
			n += decodeInto(f, ft, arr, Add(off, I64(int64(n))), big)
		}
		return n
	}
	panic(unsupported("binary decode of " + t.String()))
}

// encodeFrom appends the encoding of v (type t) to arr at off; returns the new array and size.
func encodeFrom(v Value, t types.Type, arr *Arr, off *Term, big bool) (*Arr, int) {
	switch u := t.Underlying().(type) {
	case *types.Basic:
		w := basicWidth(u)
		if w == 0 {
			return arr.Store(off, Ite(v.(*Term), BV(1, 8), BV(0, 8))), 1
		}
		n := w / 8
		x := v.(*Term)
		for i := 0; i < n; i++ {
			var b *Term
			if big {
				b = Extract(x, w-1-8*i, w-8-8*i)
			} else {
				b = Extract(x, 8*i+7, 8*i)
			}
			arr = arr.Store(Add(off, I64(int64(i))), b)
		}
		return arr, n
	case *types.Array:
		if isByteType(u.Elem()) {
			b := v.(BArrV)
			return ArrCopy(arr, off, b.arr, b.off, I64(int64(b.n))), b.n
		}
		n := 0
		for _, e := range v.(ArrayV) {
			var k int
			arr, k = encodeFrom(e, u.Elem(), arr, Add(off, I64(int64(n))), big)
			n += k
		}
		return arr, n
	case *types.Struct:
		n := 0
		for i, f := range v.(StructV) {
			ft := u.Field(i).Type()
			if u.Field(i).Name() == "_" {
				k := fixedSize(ft)
				arr = ArrCopy(arr, Add(off, I64(int64(n))), arrZero, I64(0), I64(int64(k)))
				n += k
				continue
			}
			var k int
			arr, k = encodeFrom(f, ft, arr, Add(off, I64(int64(n))), big)
			n += k
		}
		return arr, n
	}
	panic(unsupported("binary encode of " + t.String()))
}

func registerBinaryIntrinsics(reg regFn) {
	reg("encoding/binary.Read", func(in *Interp, fr *frame, fn *ssa.Function, a []Value, site string) Value {
		data := a[2].(IfaceV)
		if data.t == nil {
			panic(unsupported("binary.Read into nil"))
		}
		var et types.Type
		var target Loc
		var sliceTarget *BSlice
		switch u := data.t.Underlying().(type) {
		case *types.Pointer:
			et = u.Elem()
			target = data.v
		case *types.Slice:
			if isByteType(u.Elem()) {
				bs := data.v.(BSlice)
				sliceTarget = &bs
			} else {
				panic(unsupported("binary.Read into non-byte slice"))
			}
		default:
			panic(unsupported("binary.Read into " + data.t.String()))
		}
		var n *Term
		if sliceTarget != nil {
			n = sliceTarget.len
		} else {
			sz := fixedSize(et)
			if sz < 0 {
				return in.newErrorString("binary.Read: invalid type " + et.String())
			}
			n = I64(int64(sz))
		}
		tmp := in.makeBytes(fr, n, n, nil).(BSlice)
		readFull := in.prog.ImportedPackage("io").Func("ReadFull")
		res := in.callFunction(fr, readFull, []Value{a[0], tmp}, nil, site).(TupleV)
		if err := res[1].(IfaceV); err.t != nil {
			return err
		}
		if sliceTarget != nil {
			if sliceTarget.obj != nil {
				sliceTarget.obj.arr = ArrCopy(sliceTarget.obj.arr, sliceTarget.off, tmp.obj.arr, I64(0), n)
			}
			return IfaceV{}
		}
		if isNilLoc(target) {
			panic(targetPanic{runtime: "binary.Read into nil pointer", site: site})
		}
		decodeInto(target, et, tmp.obj.arr, I64(0), isBigEndian(a[1]))
		return IfaceV{}
	})
	reg("encoding/binary.Write", func(in *Interp, fr *frame, fn *ssa.Function, a []Value, site string) Value {
		data := a[2].(IfaceV)
		if data.t == nil {
			panic(unsupported("binary.Write of nil"))
		}
		var arr *Arr = arrZero
		var n int
		big := isBigEndian(a[1])
		var out BSlice
		switch u := data.t.Underlying().(type) {
		case *types.Pointer:
			if isNilLoc(data.v) {
				panic(targetPanic{runtime: "binary.Write of nil pointer", site: site})
			}
			if fixedSize(u.Elem()) < 0 {
				return in.newErrorString("binary.Write: invalid type")
			}
			arr, n = encodeFrom(load(data.v), u.Elem(), arr, I64(0), big)
			obj := &ByteObj{id: nextID(), arr: arr, cap: I64(int64(n)), maxCap: uint64(n)}
			out = BSlice{obj: obj, off: I64(0), len: I64(int64(n)), cap: I64(int64(n))}
		case *types.Slice:
			if !isByteType(u.Elem()) {
				panic(unsupported("binary.Write of non-byte slice"))
			}
			out = data.v.(BSlice)
		default:
			if fixedSize(data.t) < 0 {
				return in.newErrorString("binary.Write: invalid type")
			}
			arr, n = encodeFrom(data.v, data.t, arr, I64(0), big)
			obj := &ByteObj{id: nextID(), arr: arr, cap: I64(int64(n)), maxCap: uint64(n)}
			out = BSlice{obj: obj, off: I64(0), len: I64(int64(n)), cap: I64(int64(n))}
		}
		w := a[0].(IfaceV)
		if w.t == nil {
			panic(targetPanic{runtime: "nil io.Writer", site: site})
		}
		m := in.findMethod(w.t, "Write")
		res := in.callFunction(fr, m, []Value{w.v, out}, nil, site).(TupleV)
		return res[1]
	})
	reg("encoding/binary.Size", func(in *Interp, fr *frame, fn *ssa.Function, a []Value, site string) Value {
		data := a[0].(IfaceV)
		t := data.t
		if p, ok := t.Underlying().(*types.Pointer); ok {
			t = p.Elem()
		}
		return I64(int64(fixedSize(t)))
	})
}

// ---- concrete fallbacks: library functions evaluated natively on concrete arguments ----

func allConc(in *Interp, a []Value) ([]interface{}, bool) {
	out := make([]interface{}, len(a))
	for i, v := range a {
		switch x := v.(type) {
		case StrV:
			s, ok := concStr(x)
			if !ok {
				return nil, false
			}
			out[i] = s
		case *Term:
			if !x.IsConst() {
				return nil, false
			}
			if x.w == 0 {
				out[i] = x.c != 0
			} else {
				out[i] = x.S()
			}
		default:
			return nil, false
		}
	}
	return out, true
}

func (in *Interp) strSlice(ss []string) Value {
	strT := types.Typ[types.String]
	arr := &ArrayLoc{elems: make([]Loc, len(ss)), elemT: strT}
	for i, s := range ss {
		arr.elems[i] = &Cell{v: mkStr(s)}
	}
	return GSlice{arr: arr, len: len(ss), cap: len(ss)}
}

func bytesConcrete(v Value) bool {
	b, ok := v.(BSlice)
	if !ok {
		return false
	}
	if b.obj == nil {
		return true
	}
	_, ok = concStr(StrV{arr: b.obj.arr, off: b.off, len: b.len})
	return ok
}

func registerAddrStringers(reg regFn) {
	// textual form of an address whose bytes are symbolic: opaque (it only feeds logging and
	// placeholders; formatting it digit by digit would fork on every digit count)
	opaque := func(ipOf func(a []Value) Value) intrinsic {
		return func(in *Interp, fr *frame, fn *ssa.Function, a []Value, site string) Value {
			ip := ipOf(a)
			if ip == nil || bytesConcrete(ip) {
				return in.callFn(fr, fn, a, nil, site)
			}
			in.e.assumptions["String() of an address with symbolic bytes is an opaque constant string (used for logging/placeholders only)"] = true
			return mkStr("<symbolic-address>")
		}
	}
	reg("(net.IP).String", opaque(func(a []Value) Value { return a[0] }))
	addrIP := func(a []Value) Value {
		sl, ok := a[0].(*StructLoc)
		if !ok {
			return nil
		}
		return load(structField(sl, "IP"))
	}
	reg("(*net.TCPAddr).String", opaque(addrIP))
	reg("(*net.UDPAddr).String", opaque(addrIP))
}

func registerConcreteFallbacks(reg regFn) {
	// each entry: executed natively when every argument is concrete, otherwise
	// the SSA body is used (if any) or the call is unsupported.
	type cf func(in *Interp, a []interface{}) Value
	table := map[string]cf{
		"strings.ToLower":   func(in *Interp, a []interface{}) Value { return mkStr(strings.ToLower(a[0].(string))) },
		"strings.ToUpper":   func(in *Interp, a []interface{}) Value { return mkStr(strings.ToUpper(a[0].(string))) },
		"strings.TrimSpace": func(in *Interp, a []interface{}) Value { return mkStr(strings.TrimSpace(a[0].(string))) },
		"strings.ReplaceAll": func(in *Interp, a []interface{}) Value {
			return mkStr(strings.ReplaceAll(a[0].(string), a[1].(string), a[2].(string)))
		},
		"strings.Split": func(in *Interp, a []interface{}) Value {
			return in.strSlice(strings.Split(a[0].(string), a[1].(string)))
		},
		"strings.Fields":    func(in *Interp, a []interface{}) Value { return in.strSlice(strings.Fields(a[0].(string))) },
		"strings.EqualFold": func(in *Interp, a []interface{}) Value { return BoolT(strings.EqualFold(a[0].(string), a[1].(string))) },
		"strings.Count": func(in *Interp, a []interface{}) Value {
			return I64(int64(strings.Count(a[0].(string), a[1].(string))))
		},
		"strings.LastIndex": func(in *Interp, a []interface{}) Value {
			return I64(int64(strings.LastIndex(a[0].(string), a[1].(string))))
		},
		"strings.IndexByte": func(in *Interp, a []interface{}) Value {
			return I64(int64(strings.IndexByte(a[0].(string), byte(a[1].(int64)))))
		},
		"strings.Repeat": func(in *Interp, a []interface{}) Value {
			return mkStr(strings.Repeat(a[0].(string), int(a[1].(int64))))
		},
		"strconv.Itoa":  func(in *Interp, a []interface{}) Value { return mkStr(strconv.Itoa(int(a[0].(int64)))) },
		"strconv.Quote": func(in *Interp, a []interface{}) Value { return mkStr(strconv.Quote(a[0].(string))) },
		"net.SplitHostPort": func(in *Interp, a []interface{}) Value {
			h, p, err := net.SplitHostPort(a[0].(string))
			var e Value = IfaceV{}
			if err != nil {
				e = in.newErrorString(err.Error())
			}
			return TupleV{mkStr(h), mkStr(p), e}
		},
		"net.JoinHostPort": func(in *Interp, a []interface{}) Value { return mkStr(net.JoinHostPort(a[0].(string), a[1].(string))) },
	}
	for name, f := range table {
		f := f
		name := name
		reg(name, func(in *Interp, fr *frame, fn *ssa.Function, a []Value, site string) Value {
			if ca, ok := allConc(in, a); ok {
				return f(in, ca)
			}
			if fn.Blocks != nil {
				return in.callFn(fr, fn, a, nil, site)
			}
			panic(unsupported(fmt.Sprintf("%s on symbolic arguments at %s", name, site)))
		})
	}
}

// ---- foreign globals ---------------------------------------------------------------------

func constBytes(b []byte) Value {
	obj := &ByteObj{id: nextID(), arr: ArrConst(b), cap: I64(int64(len(b))), maxCap: uint64(len(b))}
	return BSlice{obj: obj, off: I64(0), len: I64(int64(len(b))), cap: I64(int64(len(b)))}
}

func ip4in6(a, b, c, d byte) []byte {
	return []byte{0, 0, 0, 0, 0, 0, 0, 0, 0, 0, 0xff, 0xff, a, b, c, d}
}

var foreignGlobals = map[string]func(in *Interp, t types.Type) Value{
	"net.v4InV6Prefix": func(in *Interp, t types.Type) Value {
		return constBytes([]byte{0, 0, 0, 0, 0, 0, 0, 0, 0, 0, 0xff, 0xff})
	},
	"net.IPv4zero":        func(in *Interp, t types.Type) Value { return constBytes(ip4in6(0, 0, 0, 0)) },
	"net.IPv4bcast":       func(in *Interp, t types.Type) Value { return constBytes(ip4in6(255, 255, 255, 255)) },
	"net.IPv6zero":        func(in *Interp, t types.Type) Value { return constBytes(make([]byte, 16)) },
	"net.IPv6unspecified": func(in *Interp, t types.Type) Value { return constBytes(make([]byte, 16)) },
	"crypto/tls.supportedVersions": func(in *Interp, t types.Type) Value {
		// var supportedVersions = []uint16{VersionTLS13, VersionTLS12, VersionTLS11, VersionTLS10}
		vs := []uint64{0x0304, 0x0303, 0x0302, 0x0301}
		arr := &ArrayLoc{elems: make([]Loc, len(vs)), elemT: types.Typ[types.Uint16]}
		for i, v := range vs {
			arr.elems[i] = &Cell{v: BV(v, 16)}
		}
		return GSlice{arr: arr, len: len(vs), cap: len(vs)}
	},
	// sync.Map's tombstone: var expunged = new(any)
	"sync.expunged": func(in *Interp, t types.Type) Value {
		return newLoc(types.NewInterfaceType(nil, nil))
	},
	"os.ErrDeadlineExceeded": func(in *Interp, t types.Type) Value {
		p := in.prog.ImportedPackage("internal/poll")
		if p == nil {
			panic(unsupported("internal/poll not loaded"))
		}
		dt := p.Type("DeadlineExceededError").Type()
		return IfaceV{t: types.NewPointer(dt), v: newLoc(dt)}
	},
}
