package main

// Regular expressions: the pattern (always concrete in the harness
// configurations) is compiled natively with regexp/syntax and the resulting
// Thompson NFA is simulated over the symbolic input window, producing one
// boolean term. This is exact for inputs of bounded length whose bytes are
// ASCII; a byte >= 0x80 is treated as one rune U+FFFD of width 1 (what Go does
// for invalid UTF-8; valid multi-byte sequences are outside the model and the
// evidence says so).

import (
	"fmt"
	"regexp/syntax"

	"golang.org/x/tools/go/ssa"
)

type regexModel struct {
	pattern string
	prog    *syntax.Prog
}

const regexMaxInput = 1200

func compileRegex(pattern string) (*regexModel, error) {
	re, err := syntax.Parse(pattern, syntax.Perl)
	if err != nil {
		return nil, err
	}
	prog, err := syntax.Compile(re.Simplify())
	if err != nil {
		return nil, err
	}
	return &regexModel{pattern: pattern, prog: prog}, nil
}

// runeMatch builds "byte b (as a rune) is matched by inst".
func runeMatch(inst *syntax.Inst, b *Term) *Term {
	// rune value: b if b < 0x80 else 0xFFFD
	ascii := Ult(b, BV(0x80, 8))
	test := func(r rune) bool { return inst.MatchRune(r) }
	switch inst.Op {
	case syntax.InstRuneAny:
		return tTrue
	case syntax.InstRuneAnyNotNL:
		return Ne(b, BV('\n', 8))
	}
	// enumerate the 128 ASCII code points into ranges
	var cond *Term = tFalse
	start := -1
	for c := 0; c <= 128; c++ {
		m := c < 128 && test(rune(c))
		if m && start < 0 {
			start = c
		}
		if !m && start >= 0 {
			lo, hi := start, c-1
			var r *Term
			if lo == hi {
				r = Eq(b, BV(uint64(lo), 8))
			} else {
				r = And(Uge(b, BV(uint64(lo), 8)), Ule(b, BV(uint64(hi), 8)))
			}
			cond = Or(cond, r)
			start = -1
		}
	}
	cond = And(ascii, cond)
	if test(0xFFFD) {
		cond = Or(cond, Not(ascii))
	}
	return cond
}

func isWordByte(b *Term) *Term {
	return Or(Or(And(Uge(b, BV('a', 8)), Ule(b, BV('z', 8))), And(Uge(b, BV('A', 8)), Ule(b, BV('Z', 8)))),
		Or(And(Uge(b, BV('0', 8)), Ule(b, BV('9', 8))), Eq(b, BV('_', 8))))
}

// match returns the term "the regexp matches somewhere in arr[off:off+n]".
func (rm *regexModel) match(arr *Arr, off, n *Term) *Term {
	bound := int(n.hi)
	if bound > regexMaxInput {
		panic(unsupported(fmt.Sprintf("regexp over input with bound %d", bound)))
	}
	prog := rm.prog
	at := func(i int) *Term { return arr.Select(Add(off, I64(int64(i)))) }
	// emptyCond(i, flags): condition for zero-width assertions at position i
	emptyCond := func(i int, op syntax.EmptyOp) *Term {
		c := tTrue
		pos := I64(int64(i))
		atEnd := Eq(pos, n)
		if op&syntax.EmptyBeginText != 0 {
			c = And(c, BoolT(i == 0))
		}
		if op&syntax.EmptyEndText != 0 {
			c = And(c, atEnd)
		}
		if op&syntax.EmptyBeginLine != 0 {
			if i == 0 {
				// true
			} else {
				c = And(c, Eq(at(i-1), BV('\n', 8)))
			}
		}
		if op&syntax.EmptyEndLine != 0 {
			c = And(c, Or(atEnd, Eq(at(i), BV('\n', 8))))
		}
		if op&(syntax.EmptyWordBoundary|syntax.EmptyNoWordBoundary) != 0 {
			var before, after *Term = tFalse, tFalse
			if i > 0 {
				before = isWordByte(at(i - 1))
			}
			after = And(Not(atEnd), isWordByte(at(i)))
			wb := Not(Eq(before, after))
			if op&syntax.EmptyWordBoundary != 0 {
				c = And(c, wb)
			}
			if op&syntax.EmptyNoWordBoundary != 0 {
				c = And(c, Not(wb))
			}
		}
		return c
	}
	matched := tFalse
	// cur[pc] = condition under which consuming instruction pc is active at position i
	cur := make([]*Term, len(prog.Inst))
	var addThread func(state []*Term, pc int, i int, cond *Term, visiting map[int]*Term)
	addThread = func(state []*Term, pc int, i int, cond *Term, visiting map[int]*Term) {
		if cond == tFalse {
			return
		}
		// avoid infinite epsilon loops: if already visiting pc with a condition that covers cond, stop
		if prev, ok := visiting[pc]; ok {
			if prev == cond || prev == tTrue {
				return
			}
		}
		visiting[pc] = cond
		inst := &prog.Inst[pc]
		switch inst.Op {
		case syntax.InstFail:
		case syntax.InstAlt, syntax.InstAltMatch:
			addThread(state, int(inst.Out), i, cond, visiting)
			addThread(state, int(inst.Arg), i, cond, visiting)
		case syntax.InstNop, syntax.InstCapture:
			addThread(state, int(inst.Out), i, cond, visiting)
		case syntax.InstEmptyWidth:
			addThread(state, int(inst.Out), i, And(cond, emptyCond(i, syntax.EmptyOp(inst.Arg))), visiting)
		case syntax.InstMatch:
			matched = Or(matched, cond)
		default: // rune-consuming
			if state[pc] == nil {
				state[pc] = cond
			} else {
				state[pc] = Or(state[pc], cond)
			}
		}
		delete(visiting, pc)
	}
	for i := 0; i <= bound; i++ {
		inRange := Ule(I64(int64(i)), n)
		// a match may start at any position (regexp.Match is unanchored unless the pattern says so)
		addThread(cur, prog.Start, i, inRange, map[int]*Term{})
		if i == bound {
			break
		}
		next := make([]*Term, len(prog.Inst))
		valid := Ult(I64(int64(i)), n)
		b := at(i)
		for pc, c := range cur {
			if c == nil {
				continue
			}
			inst := &prog.Inst[pc]
			step := And(And(c, valid), runeMatch(inst, b))
			addThread(next, int(inst.Out), i+1, step, map[int]*Term{})
		}
		cur = next
	}
	return matched
}

func regexArg(v Value) *regexModel {
	if op, ok := v.(*Opaque); ok && op.kind == "regexp" {
		return op.data.(*regexModel)
	}
	return nil
}

func init() {
	compile := func(in *Interp, fr *frame, fn *ssa.Function, a []Value, site string) (*Opaque, string) {
		pat, ok := concStr(a[0].(StrV))
		if !ok {
			panic(unsupported("regexp.Compile of a symbolic pattern"))
		}
		rm, err := compileRegex(pat)
		if err != nil {
			return nil, err.Error()
		}
		in.e.assumptions["regexp semantics: NFA of regexp/syntax simulated over the bounded symbolic input; bytes >= 0x80 are treated as single invalid-UTF-8 runes"] = true
		return &Opaque{kind: "regexp", id: nextID(), data: rm}, ""
	}
	intrinsics["regexp.Compile"] = func(in *Interp, fr *frame, fn *ssa.Function, a []Value, site string) Value {
		op, err := compile(in, fr, fn, a, site)
		if op == nil {
			return TupleV{NilLoc{}, in.newErrorString("regexp: " + err)}
		}
		return TupleV{op, IfaceV{}}
	}
	intrinsics["regexp.MustCompile"] = func(in *Interp, fr *frame, fn *ssa.Function, a []Value, site string) Value {
		op, err := compile(in, fr, fn, a, site)
		if op == nil {
			panic(targetPanic{v: IfaceV{}, runtime: "regexp: Compile: " + err, site: site})
		}
		return op
	}
	intrinsics["(*regexp.Regexp).MatchString"] = func(in *Interp, fr *frame, fn *ssa.Function, a []Value, site string) Value {
		rm := regexArg(a[0])
		if rm == nil {
			panic(targetPanic{runtime: "invalid memory address or nil pointer dereference (nil *regexp.Regexp)", site: site})
		}
		s := a[1].(StrV)
		return rm.match(s.arr, s.off, s.len)
	}
	intrinsics["(*regexp.Regexp).Match"] = func(in *Interp, fr *frame, fn *ssa.Function, a []Value, site string) Value {
		rm := regexArg(a[0])
		if rm == nil {
			panic(targetPanic{runtime: "invalid memory address or nil pointer dereference (nil *regexp.Regexp)", site: site})
		}
		in.raceSlice(a[1], false, site)
		s := bsliceStr(a[1].(BSlice))
		return rm.match(s.arr, s.off, s.len)
	}
	intrinsics["(*regexp.Regexp).String"] = func(in *Interp, fr *frame, fn *ssa.Function, a []Value, site string) Value {
		rm := regexArg(a[0])
		if rm == nil {
			panic(targetPanic{runtime: "nil *regexp.Regexp", site: site})
		}
		return mkStr(rm.pattern)
	}
}
