package main

// Intrinsics: functions whose semantics are implemented by the engine.

import (
	"fmt"
	"go/types"
	"strings"

	"golang.org/x/tools/go/ssa"
)

type intrinsic func(in *Interp, fr *frame, fn *ssa.Function, args []Value, site string) Value

var intrinsics = map[string]intrinsic{}

const vapiPkg = "verifharness/vapi."

var cliParams = map[string]int{}

func init() {
	reg := func(name string, h intrinsic) { intrinsics[name] = h }

	// ---- harness API -------------------------------------------------------
	reg(vapiPkg+"Symbolic", func(in *Interp, fr *frame, fn *ssa.Function, a []Value, site string) Value { return tTrue })
	reg(vapiPkg+"Register", func(in *Interp, fr *frame, fn *ssa.Function, a []Value, site string) Value { return nil })
	reg(vapiPkg+"Param", func(in *Interp, fr *frame, fn *ssa.Function, a []Value, site string) Value {
		name := in.mustConcStr(a[0], "vapi.Param name")
		if v, ok := cliParams[name]; ok {
			return I64(int64(v))
		}
		return a[1]
	})
	reg(vapiPkg+"Int", func(in *Interp, fr *frame, fn *ssa.Function, a []Value, site string) Value {
		name := in.mustConcStr(a[0], "vapi.Int name")
		lo, hi := a[1].(*Term), a[2].(*Term)
		vn := in.e.freshName(name)
		var v *Term
		if lo.IsConst() && hi.IsConst() && lo.S() >= 0 && hi.S() >= lo.S() {
			v = VarRange(vn, 64, lo.c, hi.c)
		} else {
			v = Var(vn, 64)
		}
		in.e.inputs = append(in.e.inputs, inputDecl{name: vn, kind: "int", t: v, w: 64, signed: true})
		if lo.IsConst() && hi.IsConst() && lo.S() >= 0 && hi.S() >= lo.S() {
			in.e.AssumeFresh(rawRange(v, lo.c, hi.c))
		} else {
			in.e.Assume(And(Sle(lo, v), Sle(v, hi)), "vapi.Int range "+site)
		}
		return v
	})
	mkUint := func(w int) intrinsic {
		return func(in *Interp, fr *frame, fn *ssa.Function, a []Value, site string) Value {
			name := in.mustConcStr(a[0], "vapi.Uint name")
			vn := in.e.freshName(name)
			v := Var(vn, w)
			in.e.inputs = append(in.e.inputs, inputDecl{name: vn, kind: "int", t: v, w: w})
			return v
		}
	}
	reg(vapiPkg+"Uint8", mkUint(8))
	reg(vapiPkg+"Uint16", mkUint(16))
	reg(vapiPkg+"Uint32", mkUint(32))
	reg(vapiPkg+"Uint64", mkUint(64))
	reg(vapiPkg+"Bool", func(in *Interp, fr *frame, fn *ssa.Function, a []Value, site string) Value {
		name := in.mustConcStr(a[0], "vapi.Bool name")
		vn := in.e.freshName(name)
		v := BoolVar(vn)
		in.e.inputs = append(in.e.inputs, inputDecl{name: vn, kind: "bool", t: v})
		return v
	})
	reg(vapiPkg+"Bytes", func(in *Interp, fr *frame, fn *ssa.Function, a []Value, site string) Value {
		name := in.mustConcStr(a[0], "vapi.Bytes name")
		max := a[1].(*Term)
		if !max.IsConst() {
			panic(unsupported("vapi.Bytes with symbolic maxLen"))
		}
		vn := in.e.freshName(name)
		l := VarRange(vn+".len", 64, 0, max.c)
		in.e.AssumeFresh(rawRange(l, 0, max.c))
		in.e.inputs = append(in.e.inputs, inputDecl{name: vn, kind: "bytes", t: l, arr: vn, maxLen: int(max.c)})
		obj := &ByteObj{id: nextID(), arr: ArrBase(vn), cap: l, maxCap: max.c, label: vn}
		return BSlice{obj: obj, off: I64(0), len: l, cap: l}
	})
	reg(vapiPkg+"BytesN", func(in *Interp, fr *frame, fn *ssa.Function, a []Value, site string) Value {
		name := in.mustConcStr(a[0], "vapi.BytesN name")
		n := a[1].(*Term)
		if !n.IsConst() {
			panic(unsupported("vapi.BytesN with symbolic n"))
		}
		vn := in.e.freshName(name)
		in.e.inputs = append(in.e.inputs, inputDecl{name: vn, kind: "bytes", t: n, arr: vn, maxLen: int(n.c)})
		obj := &ByteObj{id: nextID(), arr: ArrBase(vn), cap: n, maxCap: n.c, label: vn}
		return BSlice{obj: obj, off: I64(0), len: n, cap: n}
	})
	reg(vapiPkg+"Assume", func(in *Interp, fr *frame, fn *ssa.Function, a []Value, site string) Value {
		in.e.Assume(a[0].(*Term), site)
		return nil
	})
	reg(vapiPkg+"Assert", func(in *Interp, fr *frame, fn *ssa.Function, a []Value, site string) Value {
		label := in.mustConcStr(a[1], "vapi.Assert label")
		in.e.Assert(a[0].(*Term), label, site)
		return nil
	})
	reg(vapiPkg+"AssertBytesEqual", func(in *Interp, fr *frame, fn *ssa.Function, a []Value, site string) Value {
		x, y := bsliceStr(a[0].(BSlice)), bsliceStr(a[1].(BSlice))
		label := in.mustConcStr(a[2], "vapi.AssertBytesEqual label")
		// refute with a fresh index: needs no bound on the length
		kn := in.e.freshName("eqidx")
		k := Var(kn, 64)
		in.e.inputs = append(in.e.inputs, inputDecl{name: kn, kind: "int", t: k, w: 64})
		differ := And(Ult(k, x.len), Ne(x.arr.Select(Add(x.off, k)), y.arr.Select(Add(y.off, k))))
		in.e.Assert(And(Eq(x.len, y.len), Not(differ)), label, site)
		return nil
	})
	reg(vapiPkg+"Or", func(in *Interp, fr *frame, fn *ssa.Function, a []Value, site string) Value {
		return Or(a[0].(*Term), a[1].(*Term))
	})
	reg(vapiPkg+"And", func(in *Interp, fr *frame, fn *ssa.Function, a []Value, site string) Value {
		return And(a[0].(*Term), a[1].(*Term))
	})
	reg(vapiPkg+"Min", func(in *Interp, fr *frame, fn *ssa.Function, a []Value, site string) Value {
		return Min(a[0].(*Term), a[1].(*Term), true)
	})
	reg(vapiPkg+"Advance", func(in *Interp, fr *frame, fn *ssa.Function, a []Value, site string) Value {
		d := concDuration(a[0], "vapi.Advance")
		in.clock()
		// goroutines that are ready to run do so before time passes (a goroutine
		// started just now reaches its first Sleep/receive at the current instant)
		in.ensureSched().runOthers()
		if d > 0 {
			in.ensureSched().advance(d)
			in.ensureSched().runOthers()
		}
		return nil
	})
	reg(vapiPkg+"Yield", func(in *Interp, fr *frame, fn *ssa.Function, a []Value, site string) Value {
		in.ensureSched().runOthers()
		return nil
	})
	reg(vapiPkg+"Elapsed", func(in *Interp, fr *frame, fn *ssa.Function, a []Value, site string) Value {
		in.clock()
		return I64(in.now.elapsed)
	})
	reg(vapiPkg+"Cover", func(in *Interp, fr *frame, fn *ssa.Function, a []Value, site string) Value {
		in.e.Cover(in.mustConcStr(a[0], "vapi.Cover label"))
		return nil
	})
	reg(vapiPkg+"Choice", func(in *Interp, fr *frame, fn *ssa.Function, a []Value, site string) Value {
		k := a[1].(*Term)
		if !k.IsConst() {
			panic(unsupported("vapi.Choice with symbolic arity"))
		}
		return I64(int64(in.e.Choice(int(k.c), "vapi.Choice "+in.mustConcStr(a[0], "choice name"))))
	})
	reg(vapiPkg+"Log", func(in *Interp, fr *frame, fn *ssa.Function, a []Value, site string) Value {
		tag := in.mustConcStr(a[0], "vapi.Log tag")
		var vals []interface{}
		gs := a[1].(GSlice)
		for i := 0; i < gs.len; i++ {
			iv := load(gs.arr.elems[gs.off+i]).(IfaceV)
			vals = append(vals, in.logVal(iv))
		}
		in.e.Log(tag, vals...)
		return nil
	})

	// ---- errors / fmt --------------------------------------------------------
	reg("errors.Is", func(in *Interp, fr *frame, fn *ssa.Function, a []Value, site string) Value {
		return BoolT(in.errorsIs(fr, a[0].(IfaceV), a[1].(IfaceV), site))
	})
	reg("errors.As", func(in *Interp, fr *frame, fn *ssa.Function, a []Value, site string) Value {
		return BoolT(in.errorsAs(fr, a[0].(IfaceV), a[1].(IfaceV), site))
	})
	reg("fmt.Errorf", func(in *Interp, fr *frame, fn *ssa.Function, a []Value, site string) Value {
		format, _ := concStr(a[0].(StrV))
		var wrapped []IfaceV
		gs := a[1].(GSlice)
		for i := 0; i < gs.len; i++ {
			iv := load(gs.arr.elems[gs.off+i]).(IfaceV)
			if iv.t != nil && types.Implements(iv.t, errorIface()) {
				wrapped = append(wrapped, iv)
			}
		}
		if !strings.Contains(format, "%w") {
			wrapped = nil
		}
		return in.newWrapErr("fmt.Errorf:"+format, wrapped)
	})
	reg("fmt.Sprintf", func(in *Interp, fr *frame, fn *ssa.Function, a []Value, site string) Value {
		return in.sprintf(a[0].(StrV), a[1].(GSlice))
	})
	reg("fmt.Sprint", func(in *Interp, fr *frame, fn *ssa.Function, a []Value, site string) Value {
		return in.sprintf(mkStr("%v"), a[0].(GSlice))
	})
	reg("fmt.Fprintf", func(in *Interp, fr *frame, fn *ssa.Function, a []Value, site string) Value {
		w := a[0].(IfaceV)
		str := in.sprintf(a[1].(StrV), a[2].(GSlice)).(StrV)
		if w.t == nil || w.t == in.opaqueT {
			return TupleV{I64(0), IfaceV{}}
		}
		m := in.findMethod(w.t, "Write")
		obj := &ByteObj{id: nextID(), arr: ArrCopy(arrZero, I64(0), str.arr, str.off, str.len), cap: str.len, maxCap: str.len.hi}
		return in.callFunction(fr, m, []Value{w.v, BSlice{obj: obj, off: I64(0), len: str.len, cap: str.len}}, nil, site)
	})
	for _, n := range []string{"fmt.Printf", "fmt.Println", "fmt.Print", "fmt.Fprintln", "fmt.Fprint"} {
		reg(n, func(in *Interp, fr *frame, fn *ssa.Function, a []Value, site string) Value {
			return TupleV{I64(0), IfaceV{}}
		})
	}

	// ---- internal/bytealg ----------------------------------------------------
	reg("internal/bytealg.IndexByte", func(in *Interp, fr *frame, fn *ssa.Function, a []Value, site string) Value {
		s := a[0].(BSlice)
		if s.obj == nil {
			return I64(-1)
		}
		return in.indexByte(s.obj.arr, s.off, s.len, a[1].(*Term))
	})
	reg("internal/bytealg.IndexByteString", func(in *Interp, fr *frame, fn *ssa.Function, a []Value, site string) Value {
		s := a[0].(StrV)
		return in.indexByte(s.arr, s.off, s.len, a[1].(*Term))
	})
	reg("internal/bytealg.Equal", func(in *Interp, fr *frame, fn *ssa.Function, a []Value, site string) Value {
		x, y := a[0].(BSlice), a[1].(BSlice)
		return in.strEq(bsliceStr(x), bsliceStr(y))
	})
	reg("bytes.Equal", func(in *Interp, fr *frame, fn *ssa.Function, a []Value, site string) Value {
		x, y := a[0].(BSlice), a[1].(BSlice)
		return in.strEq(bsliceStr(x), bsliceStr(y))
	})
	reg("internal/bytealg.Compare", func(in *Interp, fr *frame, fn *ssa.Function, a []Value, site string) Value {
		return in.compareBytes(bsliceStr(a[0].(BSlice)), bsliceStr(a[1].(BSlice)))
	})
	reg("bytes.Compare", func(in *Interp, fr *frame, fn *ssa.Function, a []Value, site string) Value {
		return in.compareBytes(bsliceStr(a[0].(BSlice)), bsliceStr(a[1].(BSlice)))
	})
	reg("internal/bytealg.CountString", func(in *Interp, fr *frame, fn *ssa.Function, a []Value, site string) Value {
		s, ok := concStr(a[0].(StrV))
		c := a[1].(*Term)
		if !ok || !c.IsConst() {
			panic(unsupported("bytealg.CountString on symbolic data"))
		}
		return I64(int64(strings.Count(s, string([]byte{byte(c.c)}))))
	})
	reg("bytes.Index", func(in *Interp, fr *frame, fn *ssa.Function, a []Value, site string) Value {
		return in.indexSub(bsliceStr(a[0].(BSlice)), bsliceStr(a[1].(BSlice)))
	})
	reg("bytes.Contains", func(in *Interp, fr *frame, fn *ssa.Function, a []Value, site string) Value {
		return Sge(in.indexSub(bsliceStr(a[0].(BSlice)), bsliceStr(a[1].(BSlice))), I64(0))
	})
	reg("strings.Index", func(in *Interp, fr *frame, fn *ssa.Function, a []Value, site string) Value {
		return in.indexSub(a[0].(StrV), a[1].(StrV))
	})
	reg("strings.Contains", func(in *Interp, fr *frame, fn *ssa.Function, a []Value, site string) Value {
		return Sge(in.indexSub(a[0].(StrV), a[1].(StrV)), I64(0))
	})

	// ---- runtime / misc ------------------------------------------------------
	reg("runtime.GOMAXPROCS", func(in *Interp, fr *frame, fn *ssa.Function, a []Value, site string) Value {
		if v, ok := cliParams["GOMAXPROCS"]; ok {
			return I64(int64(v))
		}
		return I64(4)
	})
	reg("runtime.KeepAlive", func(in *Interp, fr *frame, fn *ssa.Function, a []Value, site string) Value { return nil })
	reg("runtime/debug.Stack", func(in *Interp, fr *frame, fn *ssa.Function, a []Value, site string) Value { return BSlice{} })
	reg("internal/reflectlite.TypeOf", func(in *Interp, fr *frame, fn *ssa.Function, a []Value, site string) Value {
		return in.stubZero(fn.Signature.Results().At(0).Type())
	})
	reg("internal/race.Enabled", nil)
	delete(intrinsics, "internal/race.Enabled")

	reg("unique.Make", func(in *Interp, fr *frame, fn *ssa.Function, a []Value, site string) Value {
		// Handle[T]{value *T}: canonical pointer per distinct value
		for _, u := range in.uniques {
			if types.Identical(u.t, fn.Signature.Params().At(0).Type()) {
				if c := in.valueEq(u.v, a[0]); c == tTrue {
					return StructV{u.loc}
				} else if c != tFalse {
					panic(unsupported("unique.Make on symbolic value"))
				}
			}
		}
		t := fn.Signature.Params().At(0).Type()
		l := newLoc(t)
		store(l, a[0])
		in.uniques = append(in.uniques, uniqueEnt{t, a[0], l})
		return StructV{l}
	})
	sortSlice := func(in *Interp, fr *frame, fn *ssa.Function, a []Value, site string) Value {
		iv := a[0].(IfaceV)
		gs, ok := iv.v.(GSlice)
		if !ok {
			panic(unsupported("sort.Slice on non-generic slice"))
		}
		less := func(i, j int) bool {
			r := in.call(fr, a[1], []Value{I64(int64(i)), I64(int64(j))}, nil, site).(*Term)
			return in.e.Branch(r, "sort.less:"+site)
		}
		swap := func(i, j int) {
			x, y := load(gs.arr.elems[gs.off+i]), load(gs.arr.elems[gs.off+j])
			store(gs.arr.elems[gs.off+i], y)
			store(gs.arr.elems[gs.off+j], x)
		}
		for i := 1; i < gs.len; i++ {
			for j := i; j > 0 && less(j, j-1); j-- {
				swap(j, j-1)
			}
		}
		return nil
	}
	reg("sort.Slice", sortSlice)
	reg("sort.SliceStable", sortSlice)
	// math/rand: a draw is an arbitrary value in the documented range
	reg("math/rand.Int", func(in *Interp, fr *frame, fn *ssa.Function, a []Value, site string) Value {
		name := in.e.freshName("rand.Int")
		v := VarRange(name, 64, 0, 1<<63-1)
		in.e.AssumeFresh(rawRange(v, 0, 1<<63-1))
		in.e.inputs = append(in.e.inputs, inputDecl{name: name, kind: "int", t: v, w: 64})
		return v
	})
	reg("math/rand.Intn", func(in *Interp, fr *frame, fn *ssa.Function, a []Value, site string) Value {
		n := a[0].(*Term)
		in.check(fr, Sgt(n, I64(0)), "invalid argument to Intn", nil)
		name := in.e.freshName("rand.Intn")
		var v *Term
		if n.IsConst() {
			v = VarRange(name, 64, 0, n.c-1)
			in.e.AssumeFresh(rawRange(v, 0, n.c-1))
		} else {
			v = VarRange(name, 64, 0, n.hi)
			in.e.AssumeFresh(rawRange(v, 0, n.hi))
			in.e.Assume(Ult(v, n), "rand.Intn range")
		}
		in.e.inputs = append(in.e.inputs, inputDecl{name: name, kind: "int", t: v, w: 64})
		return v
	})
	reg("math/rand.Uint32", func(in *Interp, fr *frame, fn *ssa.Function, a []Value, site string) Value {
		name := in.e.freshName("rand.Uint32")
		v := Var(name, 32)
		in.e.inputs = append(in.e.inputs, inputDecl{name: name, kind: "int", t: v, w: 32})
		return v
	})
	// strings.Builder: the unsafe parts (copyCheck's self pointer, grow's MakeNoZero, String's
	// unsafe.String) are replaced; the appends in WriteString/WriteByte/Write run from SSA.
	reg("(*strings.Builder).copyCheck", func(in *Interp, fr *frame, fn *ssa.Function, a []Value, site string) Value { return nil })
	reg("(*strings.Builder).Grow", func(in *Interp, fr *frame, fn *ssa.Function, a []Value, site string) Value { return nil })
	reg("(*strings.Builder).grow", func(in *Interp, fr *frame, fn *ssa.Function, a []Value, site string) Value { return nil })
	reg("(*strings.Builder).String", func(in *Interp, fr *frame, fn *ssa.Function, a []Value, site string) Value {
		sl, ok := a[0].(*StructLoc)
		if !ok {
			panic(targetPanic{runtime: "invalid memory address or nil pointer dereference (nil *strings.Builder)", site: site})
		}
		b, _ := load(sl.fields[1]).(BSlice)
		return bsliceStr(b)
	})
	registerSyncIntrinsics(reg)
	registerTimeIntrinsics(reg)
	registerBinaryIntrinsics(reg)
	registerConcreteFallbacks(reg)
	registerAddrStringers(reg)
}

func errorIface() *types.Interface {
	return types.Universe.Lookup("error").Type().Underlying().(*types.Interface)
}

func bsliceStr(b BSlice) StrV {
	if b.obj == nil {
		return mkStr("")
	}
	return StrV{arr: b.obj.arr, off: b.off, len: b.len}
}

func (in *Interp) mustConcStr(v Value, what string) string {
	s, ok := concStr(v.(StrV))
	if !ok {
		panic(unsupported(what + " must be a concrete string"))
	}
	return s
}

func (in *Interp) logVal(iv IfaceV) interface{} {
	if iv.t == nil {
		return "<nil>"
	}
	switch v := iv.v.(type) {
	case *Term:
		if v.w != 0 && v.w < 64 && isSigned(iv.t) {
			return v // printed as unsigned of own width, like the native side
		}
		return v
	case StrV:
		if s, ok := concStr(v); ok {
			return s
		}
		return byteSnap{arr: v.arr, off: v.off, len: v.len, max: snapMax(v.len)}
	case BSlice:
		if v.obj == nil {
			return ""
		}
		return byteSnap{arr: v.obj.arr, off: v.off, len: v.len, max: snapMax(v.len)}
	}
	if types.Implements(iv.t, errorIface()) {
		return "err"
	}
	return fmt.Sprintf("<%s>", iv.t)
}

// ---- error model ------------------------------------------------------------

// wrapErr is the engine's model of fmt.Errorf results: an opaque error that
// remembers its %w operands.
type wrapErr struct {
	msg     string
	wrapped []IfaceV
}

func (in *Interp) newWrapErr(msg string, wrapped []IfaceV) Value {
	return IfaceV{t: in.opaqueErrT(), v: &Opaque{kind: "wrapErr", id: nextID(), data: &wrapErr{msg, wrapped}}}
}

var opaqueErrType types.Type

func (in *Interp) opaqueErrT() types.Type {
	if opaqueErrType == nil {
		// a distinct named type that implements error: reuse *fmt.wrapError if present, else errorString
		if p := in.prog.ImportedPackage("fmt"); p != nil {
			if t := p.Type("wrapError"); t != nil {
				opaqueErrType = types.NewPointer(t.Type())
			}
		}
		if opaqueErrType == nil {
			opaqueErrType = in.errStrT
		}
	}
	return opaqueErrType
}

func (in *Interp) unwrapAll(fr *frame, err IfaceV, site string) []IfaceV {
	if op, ok := err.v.(*Opaque); ok && op.kind == "wrapErr" {
		return op.data.(*wrapErr).wrapped
	}
	if err.t == nil || err.t == in.opaqueT {
		return nil
	}
	if m := in.findMethod(err.t, "Unwrap"); m != nil {
		res := in.callFunction(fr, m, []Value{err.v}, nil, site)
		switch r := res.(type) {
		case IfaceV:
			if r.t != nil {
				return []IfaceV{r}
			}
		case GSlice:
			var out []IfaceV
			for i := 0; i < r.len; i++ {
				out = append(out, load(r.arr.elems[r.off+i]).(IfaceV))
			}
			return out
		}
	}
	return nil
}

func (in *Interp) errorsIs(fr *frame, err, target IfaceV, site string) bool {
	if err.t == nil || target.t == nil {
		return err.t == nil && target.t == nil
	}
	c := in.valueEqIface(err, target)
	if c {
		return true
	}
	if _, isOp := err.v.(*Opaque); !isOp && err.t != in.opaqueT {
		if m := in.findMethod(err.t, "Is"); m != nil {
			r := in.callFunction(fr, m, []Value{err.v, target}, nil, site).(*Term)
			if in.e.Branch(r, "errors.Is:"+site) {
				return true
			}
		}
	}
	for _, w := range in.unwrapAll(fr, err, site) {
		if in.errorsIs(fr, w, target, site) {
			return true
		}
	}
	return false
}

func (in *Interp) valueEqIface(a, b IfaceV) bool {
	if a.t == nil || b.t == nil {
		return a.t == nil && b.t == nil
	}
	if !types.Identical(a.t, b.t) {
		return false
	}
	// errors are compared by identity of pointers or by comparable value
	switch a.v.(type) {
	case *StructLoc, *Cell, *ArrayLoc, *ByteObj, *Opaque, NilLoc:
		return a.v == b.v
	}
	t := in.valueEq(a.v, b.v)
	if t.IsConst() {
		return t.c != 0
	}
	return in.e.Branch(t, "errors.Is:eq")
}

func (in *Interp) errorsAs(fr *frame, err, target IfaceV, site string) bool {
	// target is a non-nil pointer to a type implementing error or to an interface
	if target.t == nil {
		panic(targetPanic{runtime: "errors: target cannot be nil", site: site})
	}
	pt, ok := target.t.Underlying().(*types.Pointer)
	if !ok {
		panic(targetPanic{runtime: "errors: target must be a non-nil pointer", site: site})
	}
	et := pt.Elem()
	for cur := []IfaceV{err}; len(cur) > 0; {
		e := cur[0]
		cur = cur[1:]
		if e.t == nil {
			continue
		}
		if _, isOp := e.v.(*Opaque); !isOp && e.t != in.opaqueT {
			if it, isI := et.Underlying().(*types.Interface); isI {
				if types.Implements(e.t, it) {
					store(target.v, e)
					return true
				}
			} else if types.Identical(e.t, et) {
				store(target.v, e.v)
				return true
			}
		}
		cur = append(in.unwrapAll(fr, e, site), cur...)
	}
	return false
}

func (in *Interp) sprintf(format StrV, args GSlice) Value {
	f, ok := concStr(format)
	if !ok {
		return mkStr("<sprintf>")
	}
	var goargs []interface{}
	for i := 0; i < args.len; i++ {
		iv := load(args.arr.elems[args.off+i]).(IfaceV)
		switch v := iv.v.(type) {
		case *Term:
			if !v.IsConst() {
				in.e.assumptions["fmt.Sprintf of symbolic values yields an opaque concrete string"] = true
				return mkStr("<sprintf:" + f + ">")
			}
			if v.w == 0 {
				goargs = append(goargs, v.c != 0)
			} else if isSigned(iv.t) {
				goargs = append(goargs, v.S())
			} else {
				goargs = append(goargs, v.c)
			}
		case StrV:
			s, ok := concStr(v)
			if !ok {
				in.e.assumptions["fmt.Sprintf of symbolic values yields an opaque concrete string"] = true
				return mkStr("<sprintf:" + f + ">")
			}
			goargs = append(goargs, s)
		default:
			goargs = append(goargs, fmt.Sprintf("<%T>", v))
		}
	}
	return mkStr(fmt.Sprintf(f, goargs...))
}

// ---- byte search helpers ------------------------------------------------------

const searchExpandLimit = 20000

func (in *Interp) indexByte(arr *Arr, off, n *Term, c *Term) Value {
	bound := n.hi
	if bound > searchExpandLimit {
		panic(unsupported(fmt.Sprintf("IndexByte over window with bound %d", bound)))
	}
	r := I64(-1)
	for i := int64(bound) - 1; i >= 0; i-- {
		k := I64(i)
		hit := And(Ult(k, n), Eq(arr.Select(Add(off, k)), c))
		r = Ite(hit, k, r)
	}
	return r
}

func (in *Interp) indexSub(s, sub StrV) *Term {
	if a, ok := concStr(s); ok {
		if b, ok := concStr(sub); ok {
			return I64(int64(strings.Index(a, b)))
		}
	}
	if !sub.len.IsConst() {
		panic(unsupported("Index with symbolic-length needle"))
	}
	m := sub.len.c
	bound := s.len.hi
	if bound*m > searchExpandLimit*4 {
		panic(unsupported(fmt.Sprintf("Index over window with bound %d", bound)))
	}
	r := I64(-1)
	if m == 0 {
		return I64(0)
	}
	for i := int64(bound) - int64(m); i >= 0; i-- {
		k := I64(i)
		hit := Ule(Add(k, I64(int64(m))), s.len)
		for j := uint64(0); j < m && hit != tFalse; j++ {
			hit = And(hit, Eq(s.arr.Select(Add(s.off, Add(k, BV(j, 64)))), sub.arr.Select(Add(sub.off, BV(j, 64)))))
		}
		r = Ite(hit, k, r)
	}
	return r
}

func (in *Interp) compareBytes(a, b StrV) Value {
	sa, oka := concStr(a)
	sb, okb := concStr(b)
	if oka && okb {
		return I64(int64(strings.Compare(sa, sb)))
	}
	// bounded lexicographic comparison
	bound := a.len.hi
	if b.len.hi < bound {
		bound = b.len.hi
	}
	if bound > 256 {
		panic(unsupported("Compare over long symbolic windows"))
	}
	// result when common prefix equal: compare lengths
	r := Ite(Ult(a.len, b.len), I64(-1), Ite(Ult(b.len, a.len), I64(1), I64(0)))
	for i := int64(bound) - 1; i >= 0; i-- {
		k := I64(i)
		inb := And(Ult(k, a.len), Ult(k, b.len))
		x, y := a.arr.Select(Add(a.off, k)), b.arr.Select(Add(b.off, k))
		r = Ite(And(inb, Ult(x, y)), I64(-1), Ite(And(inb, Ult(y, x)), I64(1), r))
	}
	return r
}

// ---- no-op stubs ---------------------------------------------------------------

var noopPkgPrefixes = []string{
	"go.uber.org/zap",
	"log.",
	"log/slog",
	"(*log.",
}

func isNoopStub(fn *ssa.Function, name string) bool {
	pkg := ""
	if fn.Pkg != nil {
		pkg = fn.Pkg.Pkg.Path()
	} else if recv := fn.Signature.Recv(); recv != nil {
		t := recv.Type()
		if p, ok := t.(*types.Pointer); ok {
			t = p.Elem()
		}
		if n, ok := t.(*types.Named); ok && n.Obj().Pkg() != nil {
			pkg = n.Obj().Pkg().Path()
		}
	}
	if strings.HasPrefix(pkg, "go.uber.org/zap") || pkg == "log" || pkg == "log/slog" {
		// synthetic wrappers ($bound/$thunk) have bodies and call the real method: fine to stub too
		return true
	}
	switch name {
	case "golang.org/x/net/ipv4.NewControlMessage", "golang.org/x/net/ipv6.NewControlMessage":
		return true
	case "github.com/caddyserver/caddy/v2.RegisterModule",
		"github.com/caddyserver/caddy/v2/modules/caddyhttp.init",
		"github.com/caddyserver/caddy/v2/caddyconfig/httpcaddyfile.RegisterGlobalOption",
		"github.com/caddyserver/caddy/v2/caddyconfig/httpcaddyfile.RegisterDirective",
		"github.com/caddyserver/caddy/v2/caddyconfig/httpcaddyfile.RegisterDirectiveOrder":
		return true
	}
	return false
}

// findMethod returns the exported method name of t, or nil.
func (in *Interp) findMethod(t types.Type, name string) *ssa.Function {
	ms := in.prog.MethodSets.MethodSet(t)
	for i := 0; i < ms.Len(); i++ {
		if sel := ms.At(i); sel.Obj().Name() == name {
			return in.prog.MethodValue(sel)
		}
	}
	return nil
}

func snapMax(l *Term) int {
	if l.hi > 1<<16 {
		return 1 << 16
	}
	return int(l.hi)
}
