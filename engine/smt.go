package main

// One incremental solver process (z3 -in). Declarations and definitions are
// global (:global-declarations), assertions are scoped by push/pop mirroring
// the decision stack. Every non-leaf term is sent once as a define-fun.

import (
	"bufio"
	"fmt"
	"io"
	"os"
	"os/exec"
	"strings"
	"time"
)

type Solver struct {
	cmd      *exec.Cmd
	in       *bufio.Writer
	out      *bufio.Reader
	pending  int // commands awaiting "success"
	errs     []string
	declared map[string]bool
	level    int
	log      io.Writer

	queries, nSat, nUnsat, nUnknown int
	solveTime                       time.Duration
	syncTime                        time.Duration
	timeoutMs                       int
	name                            string
	// scopedDecls: declarations and definitions live in the scope they were made in
	// (no :global-declarations); they are forgotten on pop and re-sent on demand
	scopedDecls bool
	declLog     []declRec
	tmpLevel    int
}

type declRec struct {
	level int
	key   string
	t     *Term
}

func NewSolver(bin string, args []string, timeoutMs int, logPath string) (*Solver, error) {
	cmd := exec.Command(bin, args...)
	stdin, err := cmd.StdinPipe()
	if err != nil {
		return nil, err
	}
	stdout, err := cmd.StdoutPipe()
	if err != nil {
		return nil, err
	}
	cmd.Stderr = os.Stderr
	if err := cmd.Start(); err != nil {
		return nil, err
	}
	s := &Solver{cmd: cmd, in: bufio.NewWriterSize(stdin, 1<<20), out: bufio.NewReaderSize(stdout, 1<<20),
		declared: map[string]bool{}, timeoutMs: timeoutMs, name: bin}
	if logPath != "" {
		f, err := os.Create(logPath)
		if err == nil {
			s.log = f
		}
	}
	s.raw("(set-option :print-success true)")
	if strings.Contains(bin, "z3") {
		s.raw("(set-option :global-declarations true)")
		s.raw("(set-option :produce-models true)")
	} else {
		s.raw("(set-logic ALL)")
		s.scopedDecls = true
	}
	if strings.Contains(bin, "z3") {
		s.raw(fmt.Sprintf("(set-option :timeout %d)", timeoutMs))
	}
	return s, nil
}

func (s *Solver) raw(line string) {
	if s.log != nil {
		fmt.Fprintln(s.log, line)
	}
	s.in.WriteString(line)
	s.in.WriteByte('\n')
	s.pending++
}

func (s *Solver) sync() {
	t0 := time.Now()
	defer func() { s.syncTime += time.Since(t0) }()
	s.in.Flush()
	for s.pending > 0 {
		line, err := s.out.ReadString('\n')
		if err != nil {
			s.errs = append(s.errs, "solver pipe: "+err.Error())
			s.pending = 0
			return
		}
		line = strings.TrimSpace(line)
		if line == "" {
			continue
		}
		if line != "success" {
			// errors may span lines; collect
			if strings.HasPrefix(line, "(error") {
				for balance(line) > 0 {
					more, err := s.out.ReadString('\n')
					if err != nil {
						break
					}
					line += more
				}
			}
			s.errs = append(s.errs, line)
		}
		s.pending--
	}
}

func balance(s string) int {
	n := 0
	inStr := false
	inBar := false
	for _, c := range s {
		switch {
		case inStr:
			if c == '"' {
				inStr = false
			}
		case inBar:
			if c == '|' {
				inBar = false
			}
		case c == '"':
			inStr = true
		case c == '|':
			inBar = true
		case c == '(':
			n++
		case c == ')':
			n--
		}
	}
	return n
}

// define makes sure t and its sub-terms are known to the solver.
func (s *Solver) define(t *Term) {
	if t.sent {
		return
	}
	// iterative post-order to avoid deep recursion
	type item struct {
		t *Term
		i int
	}
	stack := []item{{t, 0}}
	for len(stack) > 0 {
		top := &stack[len(stack)-1]
		if top.t.sent {
			stack = stack[:len(stack)-1]
			continue
		}
		if top.i < len(top.t.a) {
			c := top.t.a[top.i]
			top.i++
			if !c.sent {
				stack = append(stack, item{c, 0})
			}
			continue
		}
		x := top.t
		stack = stack[:len(stack)-1]
		switch x.op {
		case OpConst:
		case OpVar:
			if !s.declared[x.name] {
				s.declared[x.name] = true
				s.noteDecl(x.name, nil)
				s.raw(fmt.Sprintf("(declare-const %s %s)", smtName(x.name), sortStr(x.w)))
			}
		default:
			if x.op == OpSel && !s.declared["arr:"+x.name] {
				s.declared["arr:"+x.name] = true
				s.noteDecl("arr:"+x.name, nil)
				s.raw(fmt.Sprintf("(declare-const %s (Array (_ BitVec 64) (_ BitVec 8)))", smtName(x.name)))
			}
			if x.op == OpUF && !s.declared["uf:"+x.name] {
				s.declared["uf:"+x.name] = true
				s.noteDecl("uf:"+x.name, nil)
				s.raw(fmt.Sprintf("(declare-fun %s %s)", smtName(x.name), ufDecls[x.name]))
			}
			s.raw(fmt.Sprintf("(define-fun t%d () %s %s)", x.id, sortStr(x.w), x.body()))
		}
		x.sent = true
		if x.op != OpConst {
			s.noteDecl("", x)
		}
	}
	if len(pendingGlobalAsserts) > 0 && s.level == 0 {
		s.flushGlobals()
	}
}

// global assertions (constant tables) must live at level 0; they are emitted
// before the first push and, if discovered later, re-asserted in the current
// scope every time a scope is re-entered (they are true facts, so asserting
// them in any scope is sound).
type gAssert struct {
	text  string
	level int
}

var globalAsserts []*gAssert

func (s *Solver) flushGlobals() {
	for _, a := range pendingGlobalAsserts {
		name := a[strings.Index(a, "(select ")+8:]
		name = name[:strings.Index(name[1:], "|")+2]
		key := "arr:" + strings.Trim(name, "|")
		if !s.declared[key] {
			s.declared[key] = true
			s.raw(fmt.Sprintf("(declare-const %s (Array (_ BitVec 64) (_ BitVec 8)))", name))
		}
		s.raw(a)
		globalAsserts = append(globalAsserts, &gAssert{a, s.level})
	}
	pendingGlobalAsserts = nil
}

func (s *Solver) Assert(t *Term) {
	if t == tTrue {
		return
	}
	s.define(t)
	if len(pendingGlobalAsserts) > 0 {
		// table facts discovered inside a scope: assert here (scoped) and keep for re-assertion
		s.flushGlobals()
	}
	s.raw("(assert " + t.ref() + ")")
}

func (s *Solver) noteDecl(key string, t *Term) {
	if s.scopedDecls {
		s.declLog = append(s.declLog, declRec{s.level + s.tmpLevel, key, t})
	}
}

func (s *Solver) forgetAbove(level int) {
	if !s.scopedDecls {
		return
	}
	n := len(s.declLog)
	for n > 0 && s.declLog[n-1].level > level {
		r := s.declLog[n-1]
		if r.t != nil {
			r.t.sent = false
		} else {
			delete(s.declared, r.key)
		}
		n--
	}
	s.declLog = s.declLog[:n]
}

func (s *Solver) Push() {
	s.raw("(push 1)")
	s.level++
}

func (s *Solver) PopTo(level int) {
	if level < s.level {
		s.raw(fmt.Sprintf("(pop %d)", s.level-level))
		s.level = level
		s.forgetAbove(level)
		for _, g := range globalAsserts {
			if g.level > level {
				s.raw(g.text)
				g.level = level
			}
		}
	}
}

type SatResult int

const (
	Unsat SatResult = iota
	Sat
	Unknown
)

func (r SatResult) String() string { return [...]string{"unsat", "sat", "unknown"}[r] }

// Check runs check-sat in the current scope plus an extra assumption (may be nil).
func (s *Solver) Check(extra *Term) SatResult {
	if extra != nil {
		if extra == tFalse {
			return Unsat
		}
		s.define(extra)
		if len(pendingGlobalAsserts) > 0 {
			s.flushGlobals()
		}
		s.raw("(push 1)")
		s.tmpLevel = 1
		s.define(extra)
		s.raw("(assert " + extra.ref() + ")")
	}
	r := s.checkSat()
	if extra != nil {
		s.raw("(pop 1)")
		s.tmpLevel = 0
		s.forgetAbove(s.level)
	}
	return r
}

func (s *Solver) checkSat() SatResult {
	s.sync()
	if len(s.errs) > 0 {
		return Unknown
	}
	t0 := time.Now()
	if s.log != nil {
		fmt.Fprintln(s.log, "(check-sat)")
	}
	s.in.WriteString("(check-sat)\n")
	s.in.Flush()
	line := s.readLine()
	dt := time.Since(t0)
	s.solveTime += dt
	if dt > 2*time.Second && os.Getenv("SYMGO_SLOWQ") != "" {
		fmt.Fprintf(os.Stderr, "SLOWQ %.1fs %s (query #%d)\n", dt.Seconds(), line, s.queries)
	}
	s.queries++
	switch line {
	case "sat":
		s.nSat++
		return Sat
	case "unsat":
		s.nUnsat++
		return Unsat
	case "unknown", "timeout":
		s.nUnknown++
		return Unknown
	}
	s.errs = append(s.errs, "check-sat: "+line)
	s.nUnknown++
	return Unknown
}

func (s *Solver) readLine() string {
	for {
		line, err := s.out.ReadString('\n')
		if err != nil {
			s.errs = append(s.errs, "solver pipe: "+err.Error())
			return "error"
		}
		line = strings.TrimSpace(line)
		if line == "" {
			continue
		}
		if strings.HasPrefix(line, "(error") {
			for balance(line) > 0 {
				more, err := s.out.ReadString('\n')
				if err != nil {
					break
				}
				line += more
			}
		}
		return line
	}
}

// GetValues evaluates terms in the current model (after a Sat answer while the
// asserting scope is still active).
func (s *Solver) GetValues(ts []*Term) ([]uint64, bool) {
	if len(ts) == 0 {
		return nil, true
	}
	res := make([]uint64, 0, len(ts))
	const chunk = 400
	for off := 0; off < len(ts); off += chunk {
		end := off + chunk
		if end > len(ts) {
			end = len(ts)
		}
		for _, t := range ts[off:end] {
			s.define(t)
		}
		s.sync()
		var sb strings.Builder
		sb.WriteString("(get-value (")
		for _, t := range ts[off:end] {
			sb.WriteString(t.ref())
			sb.WriteByte(' ')
		}
		sb.WriteString("))\n")
		if s.log != nil {
			fmt.Fprint(s.log, sb.String())
		}
		s.in.WriteString(sb.String())
		s.in.Flush()
		text := s.readLine()
		for balance(text) > 0 {
			more, err := s.out.ReadString('\n')
			if err != nil {
				return nil, false
			}
			text += more
		}
		if strings.HasPrefix(text, "(error") {
			s.errs = append(s.errs, text)
			return nil, false
		}
		vals := parseValues(text)
		if len(vals) != end-off {
			s.errs = append(s.errs, fmt.Sprintf("get-value: expected %d values, got %d: %.200s", end-off, len(vals), text))
			return nil, false
		}
		res = append(res, vals...)
	}
	return res, true
}

// parseValues extracts the value literal of each (term value) pair.
func parseValues(text string) []uint64 {
	var out []uint64
	// scan tokens; values are #x.., #b.., true, false, located right before a ')' closing a pair
	toks := tokenize(text)
	depth := 0
	for i, t := range toks {
		switch t {
		case "(":
			depth++
		case ")":
			if depth == 2 && i > 0 {
				v := toks[i-1]
				out = append(out, parseLit(v))
			}
			depth--
		}
	}
	return out
}

func parseLit(v string) uint64 {
	switch {
	case v == "true":
		return 1
	case v == "false":
		return 0
	case strings.HasPrefix(v, "#x"):
		var x uint64
		fmt.Sscanf(v[2:], "%x", &x)
		return x
	case strings.HasPrefix(v, "#b"):
		var x uint64
		for _, c := range v[2:] {
			x = x<<1 | uint64(c-'0')
		}
		return x
	}
	return 0
}

func tokenize(s string) []string {
	var toks []string
	i := 0
	for i < len(s) {
		c := s[i]
		switch {
		case c == '(' || c == ')':
			toks = append(toks, string(c))
			i++
		case c == ' ' || c == '\n' || c == '\t' || c == '\r':
			i++
		case c == '|':
			j := i + 1
			for j < len(s) && s[j] != '|' {
				j++
			}
			toks = append(toks, s[i:j+1])
			i = j + 1
		default:
			j := i
			for j < len(s) && !strings.ContainsRune("() \n\t\r", rune(s[j])) {
				j++
			}
			toks = append(toks, s[i:j])
			i = j
		}
	}
	return toks
}

func (s *Solver) Close() {
	s.in.WriteString("(exit)\n")
	s.in.Flush()
	done := make(chan struct{})
	go func() { s.cmd.Wait(); close(done) }()
	select {
	case <-done:
	case <-time.After(2 * time.Second):
		s.cmd.Process.Kill()
	}
}
