package main

// SSA interpreter over symbolic values.

import (
	"fmt"
	"go/constant"
	"go/token"
	"go/types"
	"strings"

	"golang.org/x/tools/go/ssa"
)

type deferred struct {
	fn   Value
	args []Value
	call *ssa.CallCommon
	tail *deferred
}

type frame struct {
	in        *Interp
	g         *G
	caller    *frame
	fn        *ssa.Function
	block     *ssa.BasicBlock
	prevBlock *ssa.BasicBlock
	env       map[ssa.Value]Value
	defers    *deferred
	result    Value
	panicking bool
	panicVal  interface{}
	visits    map[*ssa.BasicBlock]int
}

// targetPanic is a Go-level panic in the interpreted program.
type targetPanic struct {
	v       Value  // the panic value (IfaceV)
	runtime string // non-empty for run-time errors (index out of range, ...)
	site    string
}

func goRuntimePanic(msg string) targetPanic { return targetPanic{runtime: msg} }

// packages whose globals may be read as zero values without running their init
var zeroForeignPkgs = map[string]bool{"internal/cpu": true, "internal/race": true, "internal/godebug": true, "internal/goexperiment": true}

type uniqueEnt struct {
	t   types.Type
	v   Value
	loc Loc
}

type Interp struct {
	prog          *ssa.Program
	e             *Engine
	globals       map[*ssa.Global]Loc
	inited        map[*ssa.Package]bool
	execInit      func(p *ssa.Package) bool
	replace       map[string]*ssa.Function // callee full name -> harness replacement
	replaceCompat map[string]bool
	fset          *token.FileSet
	steps         int64
	curG          *G
	sched         *Sched
	pools         map[Loc]*poolState
	errStrT       types.Type // *errors.errorString
	opaqueT       types.Type
	now           *virtClock
	harnessPkg    string
	uniques       []uniqueEnt
	noSummaries   bool
	inInit        bool
	snap          *snapState
	pathCopier    *copier
	snapDisabled  bool
	elapsed0      int64
	buildPkg      func(*ssa.Package)
	race          *raceDet
	forkVC        vclock
}

func (in *Interp) resetPath() {
	in.globals = map[*ssa.Global]Loc{}
	in.inited = map[*ssa.Package]bool{}
	in.pools = map[Loc]*poolState{}
	in.uniques = nil
	in.now = nil
	in.sched = nil
	if in.snap != nil {
		c := newCopier()
		in.pathCopier = c
		for p, b := range in.snap.inited {
			in.inited[p] = b
		}
		for _, u := range in.snap.uniques {
			in.uniques = append(in.uniques, uniqueEnt{u.t, c.val(u.v), c.loc(u.loc)})
		}
		objCounter = in.snap.counter
	}
}

type snapState struct {
	globals map[*ssa.Global]Loc
	inited  map[*ssa.Package]bool
	uniques []uniqueEnt
	counter int
}

// preInit runs the harness package initialiser (and transitively those of the
// packages whose init is executed) and snapshots the resulting global state.
func (in *Interp) preInit(pkg *ssa.Package) {
	if in.snap != nil {
		return
	}
	in.inInit = true
	in.ensureInit(pkg)
	in.inInit = false
	if in.snapDisabled {
		return
	}
	if in.e.depth != 0 || len(in.e.inputs) != 0 || in.now != nil {
		in.snapDisabled = true
		return
	}
	c := newCopier()
	s := &snapState{globals: map[*ssa.Global]Loc{}, inited: map[*ssa.Package]bool{}, counter: objCounter}
	for g, l := range in.globals {
		s.globals[g] = c.loc(l)
	}
	for p, b := range in.inited {
		s.inited[p] = b
	}
	for _, u := range in.uniques {
		s.uniques = append(s.uniques, uniqueEnt{u.t, c.val(u.v), c.loc(u.loc)})
	}
	in.snap = s
}

func (in *Interp) pos(p token.Pos) string {
	if !p.IsValid() {
		return "?"
	}
	ps := in.fset.Position(p)
	f := ps.Filename
	if i := strings.LastIndex(f, "/"); i >= 0 {
		if j := strings.LastIndex(f[:i], "/"); j >= 0 {
			f = f[j+1:]
		}
	}
	return fmt.Sprintf("%s:%d", f, ps.Line)
}

var siteCache = map[ssa.Instruction]string{}

func (fr *frame) site(instr ssa.Instruction) string {
	if s, ok := siteCache[instr]; ok {
		return s
	}
	s := fr.site0(instr)
	siteCache[instr] = s
	return s
}

func (fr *frame) site0(instr ssa.Instruction) string {
	p := instr.Pos()
	if !p.IsValid() {
		// find nearest instruction with a position
		for _, i2 := range instr.Block().Instrs {
			if i2.Pos().IsValid() {
				p = i2.Pos()
				if i2 == instr {
					break
				}
			}
		}
	}
	return fr.fn.String() + "@" + fr.in.pos(p)
}

func (fr *frame) get(key ssa.Value) Value {
	switch k := key.(type) {
	case nil:
		return nil
	case *ssa.Function:
		return &Closure{fn: k}
	case *ssa.Builtin:
		return BuiltinV{k}
	case *ssa.Const:
		return fr.in.constValue(k)
	case *ssa.Global:
		return fr.in.globalLoc(k)
	}
	if v, ok := fr.env[key]; ok {
		return v
	}
	panic(fmt.Sprintf("get: no value for %T %v (%s) in %s", key, key, key.Name(), fr.fn))
}

func (in *Interp) constValue(c *ssa.Const) Value {
	t := c.Type()
	if c.Value == nil {
		return zero(t)
	}
	if tp, ok := t.(*types.TypeParam); ok {
		_ = tp
		panic(unsupported("constant of type parameter type"))
	}
	switch u := t.Underlying().(type) {
	case *types.Basic:
		switch {
		case u.Info()&types.IsBoolean != 0:
			return BoolT(constant.BoolVal(c.Value))
		case u.Info()&types.IsString != 0:
			if c.Value.Kind() == constant.String {
				return mkStr(constant.StringVal(c.Value))
			}
			// rune/int constant converted to string
			i, _ := constant.Int64Val(c.Value)
			return mkStr(string(rune(i)))
		case u.Info()&types.IsInteger != 0:
			w := basicWidth(u)
			if i, ok := constant.Int64Val(constant.ToInt(c.Value)); ok {
				return BV(uint64(i), w)
			}
			ui, _ := constant.Uint64Val(constant.ToInt(c.Value))
			return BV(ui, w)
		case u.Info()&types.IsFloat != 0:
			f, _ := constant.Float64Val(c.Value)
			return FloatV{f}
		}
	}
	panic(unsupported("constant " + c.String()))
}

func (in *Interp) globalLoc(g *ssa.Global) Loc {
	if l, ok := in.globals[g]; ok {
		return l
	}
	if in.snap != nil {
		if sl, ok := in.snap.globals[g]; ok {
			l := in.pathCopier.loc(sl)
			in.globals[g] = l
			return l
		}
	}
	pkg := g.Pkg
	if in.execInit(pkg) {
		in.ensureInit(pkg)
		if l, ok := in.globals[g]; ok {
			return l
		}
		l := newLoc(g.Type().(*types.Pointer).Elem())
		in.globals[g] = l
		return l
	}
	l := in.foreignGlobal(g)
	in.globals[g] = l
	return l
}

func (in *Interp) ensureInit(pkg *ssa.Package) {
	if in.inited[pkg] {
		return
	}
	in.inited[pkg] = true
	// allocate all globals first
	for _, m := range pkg.Members {
		if g, ok := m.(*ssa.Global); ok {
			if _, ok := in.globals[g]; !ok {
				in.globals[g] = newLoc(g.Type().(*types.Pointer).Elem())
			}
		}
	}
	if initFn := pkg.Func("init"); initFn != nil && initFn.Blocks != nil {
		saved := in.e.callStack
		in.callFn(nil, initFn, nil, nil, "init "+pkg.Pkg.Path())
		in.e.callStack = saved
	}
}

// foreignGlobal materialises a package-level variable of a package whose
// init is not executed.
func (in *Interp) foreignGlobal(g *ssa.Global) Loc {
	name := g.Pkg.Pkg.Path() + "." + g.Name()
	et := g.Type().(*types.Pointer).Elem()
	if mkr, ok := foreignGlobals[name]; ok {
		l := newLoc(et)
		store(l, mkr(in, et))
		return l
	}
	if zeroForeignPkgs[g.Pkg.Pkg.Path()] {
		return newLoc(et)
	}
	if types.Identical(et, types.Universe.Lookup("error").Type()) {
		l := newLoc(et)
		store(l, in.newErrorString(name))
		in.e.assumptions["foreign error sentinel "+name+" materialised as a unique errors.errorString"] = true
		return l
	}
	panic(unsupported("read of foreign global " + name))
}

func (in *Interp) newErrorString(msg string) Value {
	// *errors.errorString{s: msg}
	pt := in.errStrT.(*types.Pointer)
	l := newLoc(pt.Elem()).(*StructLoc)
	store(l.fields[0], mkStr(msg))
	return IfaceV{t: pt, v: l}
}

// callFn executes fn with args; returns its result value (TupleV for multi-results).
func (in *Interp) callFn(caller *frame, fn *ssa.Function, args []Value, env []Value, site string) Value {
	fr := &frame{in: in, caller: caller, fn: fn}
	if caller != nil {
		fr.g = caller.g
	} else {
		fr.g = in.curG
	}
	if fn.Blocks == nil {
		panic(unsupported("no body for function " + fn.String() + " called at " + site))
	}
	if fn.TypeParams().Len() > 0 && len(fn.TypeArgs()) == 0 {
		panic(unsupported("uninstantiated generic " + fn.String()))
	}
	in.e.funcsExecuted[fn.String()] = true
	if len(in.e.callStack) > 400 {
		panic(unsupported("call depth > 400 at " + fn.String()))
	}
	in.e.callStack = append(in.e.callStack, fn.String())
	depth := len(in.e.callStack)
	fr.env = make(map[ssa.Value]Value, 16)
	fr.block = fn.Blocks[0]
	for _, l := range fn.Locals {
		fr.env[l] = newLoc(l.Type().(*types.Pointer).Elem())
	}
	for i, p := range fn.Params {
		fr.env[p] = args[i]
	}
	for i, fv := range fn.FreeVars {
		fr.env[fv] = env[i]
	}
	for fr.block != nil {
		in.runFrame(fr)
	}
	in.e.callStack = in.e.callStack[:depth-1]
	return fr.result
}

func (in *Interp) runFrame(fr *frame) {
	defer func() {
		if fr.block == nil {
			return // normal return
		}
		r := recover()
		if _, ok := r.(targetPanic); !ok {
			panic(r) // engine-level abort (path end, unsupported, bug): do not run target defers
		}
		fr.panicking = true
		fr.panicVal = r
		fr.runDefers()
		fr.block = fr.fn.Recover
		if fr.block == nil {
			// recovered in a function without named results: return zero values
			fr.result = zeroResults(fr.fn)
		}
	}()
	for {
		blk := fr.block
		// phis (parallel assignment)
		n := 0
		for n < len(blk.Instrs) {
			if _, ok := blk.Instrs[n].(*ssa.Phi); !ok {
				break
			}
			n++
		}
		if n > 0 {
			pred := -1
			for i, p := range blk.Preds {
				if p == fr.prevBlock {
					pred = i
					break
				}
			}
			tmp := make([]Value, n)
			for i := 0; i < n; i++ {
				tmp[i] = fr.get(blk.Instrs[i].(*ssa.Phi).Edges[pred])
			}
			for i := 0; i < n; i++ {
				fr.env[blk.Instrs[i].(*ssa.Phi)] = tmp[i]
			}
		}
		jumped := false
		for _, instr := range blk.Instrs[n:] {
			in.steps++
			switch in.visit(fr, instr) {
			case kReturn:
				return
			case kJump:
				jumped = true
			}
			if jumped {
				break
			}
		}
		if !jumped {
			panic("block fell through: " + fr.fn.String())
		}
	}
}

func zeroResults(fn *ssa.Function) Value {
	res := fn.Signature.Results()
	switch res.Len() {
	case 0:
		return nil
	case 1:
		return zero(res.At(0).Type())
	}
	return zero(res)
}

func (fr *frame) runDefers() {
	for d := fr.defers; d != nil; d = d.tail {
		fr.runDefer(d)
	}
	fr.defers = nil
	if fr.panicking {
		panic(fr.panicVal)
	}
}

func (fr *frame) runDefer(d *deferred) {
	ok := false
	defer func() {
		if !ok {
			r := recover()
			if _, isT := r.(targetPanic); !isT {
				panic(r)
			}
			fr.panicking = true
			fr.panicVal = r
		}
	}()
	fr.in.call(fr, d.fn, d.args, d.call, "deferred in "+fr.fn.String())
	ok = true
}

type continuation int

const (
	kNext continuation = iota
	kReturn
	kJump
)

func (in *Interp) visit(fr *frame, instr ssa.Instruction) continuation {
	switch instr := instr.(type) {
	case *ssa.DebugRef:
	case *ssa.UnOp:
		fr.env[instr] = in.unop(fr, instr)
	case *ssa.BinOp:
		fr.env[instr] = in.binop(fr, instr.Op, instr.X.Type(), fr.get(instr.X), fr.get(instr.Y), instr)
	case *ssa.Call:
		fn, args := in.prepareCall(fr, &instr.Call)
		fr.env[instr] = in.call(fr, fn, args, &instr.Call, fr.site(instr))
	case *ssa.ChangeInterface:
		fr.env[instr] = fr.get(instr.X)
	case *ssa.ChangeType:
		fr.env[instr] = fr.get(instr.X)
	case *ssa.Convert:
		fr.env[instr] = in.convert(fr, instr.X.Type(), instr.Type(), fr.get(instr.X), instr)
	case *ssa.SliceToArrayPointer:
		fr.env[instr] = in.sliceToArrayPointer(fr, instr)
	case *ssa.MakeInterface:
		fr.env[instr] = IfaceV{t: instr.X.Type(), v: fr.get(instr.X)}
	case *ssa.Extract:
		fr.env[instr] = fr.get(instr.Tuple).(TupleV)[instr.Index]
	case *ssa.Slice:
		fr.env[instr] = in.slice(fr, instr)
	case *ssa.Return:
		switch len(instr.Results) {
		case 0:
		case 1:
			fr.result = fr.get(instr.Results[0])
		default:
			res := make(TupleV, len(instr.Results))
			for i, r := range instr.Results {
				res[i] = fr.get(r)
			}
			fr.result = res
		}
		fr.block = nil
		return kReturn
	case *ssa.RunDefers:
		fr.runDefers()
	case *ssa.Panic:
		v := fr.get(instr.X)
		panic(targetPanic{v: v, site: fr.site(instr)})
	case *ssa.Send:
		in.chanSend(fr, fr.get(instr.Chan), fr.get(instr.X), fr.site(instr))
	case *ssa.Store:
		addr := fr.get(instr.Addr)
		in.nilCheck(fr, addr, instr)
		if in.race != nil {
			in.raceLoc(addr, true, fr.site(instr))
		}
		store(addr, fr.get(instr.Val))
	case *ssa.If:
		c := fr.get(instr.Cond).(*Term)
		var v bool
		if c.IsConst() {
			v = c.c != 0
		} else if kv, ok := in.e.lookupKnown(c); ok {
			v = kv
		} else {
			if fr.visits == nil {
				fr.visits = map[*ssa.BasicBlock]int{}
			}
			fr.visits[fr.block]++
			if fr.visits[fr.block] > in.e.unwind {
				panic(pathEnd{"unwind", fr.site(instr)})
			}
			v = in.e.Branch(c, fr.site(instr))
		}
		fr.prevBlock = fr.block
		if v {
			fr.block = fr.block.Succs[0]
		} else {
			fr.block = fr.block.Succs[1]
		}
		return kJump
	case *ssa.Jump:
		fr.prevBlock, fr.block = fr.block, fr.block.Succs[0]
		return kJump
	case *ssa.Defer:
		fn, args := in.prepareCall(fr, &instr.Call)
		fr.defers = &deferred{fn: fn, args: args, call: &instr.Call, tail: fr.defers}
	case *ssa.Go:
		fn, args := in.prepareCall(fr, &instr.Call)
		in.goStmt(fr, fn, args, &instr.Call, fr.site(instr))
	case *ssa.MakeChan:
		fr.env[instr] = in.makeChan(fr, instr)
	case *ssa.Alloc:
		t := instr.Type().(*types.Pointer).Elem()
		if instr.Heap {
			fr.env[instr] = newLoc(t)
		} else {
			// stack slot: re-zero on each execution
			l := newLoc(t)
			fr.env[instr] = l
		}
	case *ssa.MakeSlice:
		fr.env[instr] = in.makeSlice(fr, instr)
	case *ssa.MakeMap:
		fr.env[instr] = &MapObj{id: nextID()}
	case *ssa.Range:
		fr.env[instr] = in.rangeIter(fr, fr.get(instr.X), instr)
	case *ssa.Next:
		fr.env[instr] = in.next(fr, fr.get(instr.Iter).(*iter), instr)
	case *ssa.FieldAddr:
		x := fr.get(instr.X)
		in.nilCheck(fr, x, instr)
		fr.env[instr] = x.(*StructLoc).fields[instr.Field]
	case *ssa.Field:
		fr.env[instr] = fr.get(instr.X).(StructV)[instr.Field]
	case *ssa.IndexAddr:
		fr.env[instr] = in.indexAddr(fr, instr)
	case *ssa.Index:
		fr.env[instr] = in.index(fr, instr)
	case *ssa.Lookup:
		fr.env[instr] = in.lookup(fr, instr)
	case *ssa.MapUpdate:
		m := fr.get(instr.Map).(*MapObj)
		if m == nil {
			panic(targetPanic{runtime: "assignment to entry in nil map", site: fr.site(instr)})
		}
		in.mapUpdate(fr, m, fr.get(instr.Key), fr.get(instr.Value), fr.site(instr))
	case *ssa.TypeAssert:
		fr.env[instr] = in.typeAssert(fr, instr)
	case *ssa.MakeClosure:
		var bindings []Value
		for _, b := range instr.Bindings {
			bindings = append(bindings, fr.get(b))
		}
		fr.env[instr] = &Closure{fn: instr.Fn.(*ssa.Function), env: bindings}
	case *ssa.Phi:
		panic("unexpected phi")
	case *ssa.Select:
		fr.env[instr] = in.selectStmt(fr, instr)
	default:
		panic(unsupported(fmt.Sprintf("instruction %T", instr)))
	}
	return kNext
}

func (in *Interp) nilCheck(fr *frame, p Value, instr ssa.Instruction) {
	if _, ok := p.(NilLoc); ok {
		panic(targetPanic{runtime: "invalid memory address or nil pointer dereference", site: fr.site(instr)})
	}
}

// check is an implicit run-time check: if cond can be false, the failing side
// is a Go run-time panic.
func (in *Interp) check(fr *frame, cond *Term, msg string, instr ssa.Instruction) {
	if cond == tTrue {
		return
	}
	site := "?"
	if fr != nil && instr != nil {
		site = fr.site(instr)
	}
	if !in.e.Branch(cond, "check:"+site) {
		panic(targetPanic{runtime: msg, site: site})
	}
}

func (in *Interp) prepareCall(fr *frame, call *ssa.CallCommon) (Value, []Value) {
	v := fr.get(call.Value)
	var args []Value
	var fn Value
	if call.Method == nil {
		fn = v
	} else {
		recv, ok := v.(IfaceV)
		if !ok {
			panic(fmt.Sprintf("invoke on %T", v))
		}
		if recv.t == nil {
			panic(targetPanic{runtime: "invalid memory address or nil pointer dereference (method call on nil interface " + call.Method.Name() + ")", site: fr.fn.String() + "@" + in.pos(call.Pos())})
		}
		if recv.t == in.opaqueT {
			fn = &opaqueMethod{name: call.Method.FullName(), sig: call.Method.Type().(*types.Signature)}
		} else {
			m := in.prog.LookupMethod(recv.t, call.Method.Pkg(), call.Method.Name())
			if m == nil {
				panic(fmt.Sprintf("method %s not found on %s", call.Method.Name(), recv.t))
			}
			fn = &Closure{fn: m}
		}
		args = append(args, recv.v)
	}
	for _, a := range call.Args {
		args = append(args, fr.get(a))
	}
	return fn, args
}

type opaqueMethod struct {
	name string
	sig  *types.Signature
}

func (in *Interp) call(fr *frame, fn Value, args []Value, cc *ssa.CallCommon, site string) Value {
	switch f := fn.(type) {
	case *Closure:
		if f == nil {
			panic(targetPanic{runtime: "call of nil function", site: site})
		}
		return in.callFunction(fr, f.fn, args, f.env, site)
	case BuiltinV:
		return in.callBuiltin(fr, f.b, args, cc, site)
	case *opaqueMethod:
		in.e.stubsHit["opaque:"+f.name] = true
		if strings.HasSuffix(f.name, ".Comparable") {
			return tTrue
		}
		return in.zeroResultsSig(f.sig)
	}
	panic(fmt.Sprintf("call of %T at %s", fn, site))
}

func (in *Interp) zeroResultsSig(sig *types.Signature) Value {
	res := sig.Results()
	switch res.Len() {
	case 0:
		return nil
	case 1:
		return in.stubZero(res.At(0).Type())
	}
	tv := make(TupleV, res.Len())
	for i := range tv {
		tv[i] = in.stubZero(res.At(i).Type())
	}
	return tv
}

// stubZero is the result of a no-op stub: zero, except that interface results
// (other than error) become opaque non-nil interfaces so that chained calls
// like logger.Core().Enabled() do not dereference nil.
func (in *Interp) stubZero(t types.Type) Value {
	if it, ok := t.Underlying().(*types.Interface); ok {
		if types.Identical(t, types.Universe.Lookup("error").Type()) || it.NumMethods() == 0 {
			return IfaceV{}
		}
		return IfaceV{t: in.opaqueT, v: &Opaque{kind: t.String(), id: nextID()}}
	}
	return zero(t)
}

func fnName(fn *ssa.Function) string {
	if o := fn.Origin(); o != nil {
		return o.String()
	}
	return fn.String()
}

func (in *Interp) callFunction(fr *frame, fn *ssa.Function, args []Value, env []Value, site string) Value {
	name := fnName(fn)
	if r, ok := in.replace[name]; ok && (fr == nil || fr.fn != r) {
		in.e.stubsHit["replaced:"+name] = true
		if !in.replaceCompat[name] {
			in.e.pathDep |= 8 // a harness replacement ran: the native twin runs the real callee instead
		}
		return in.callFn(fr, r, args, nil, site)
	}
	if h, ok := intrinsics[name]; ok {
		in.e.intrinsicsHit[name] = true
		return h(in, fr, fn, args, site)
	}
	if isNoopStub(fn, name) {
		in.e.stubsHit[name] = true
		return in.zeroResultsSig(fn.Signature)
	}
	if fn.Blocks == nil && fn.Pkg != nil && in.buildPkg != nil {
		in.buildPkg(fn.Pkg)
	} else if fn.Blocks == nil && fn.Origin() != nil && fn.Origin().Pkg != nil && in.buildPkg != nil {
		in.buildPkg(fn.Origin().Pkg)
	}
	if fn.Blocks == nil {
		// synthetic package initialiser of a package we do not execute
		if fn.Name() == "init" && fn.Synthetic != "" {
			return nil
		}
		panic(unsupported("call of function without body: " + name + " at " + site))
	}
	if fn.Name() == "init" && fn.Synthetic == "package initializer" {
		if fn.Pkg != nil && in.execInit(fn.Pkg) {
			in.ensureInit(fn.Pkg)
		}
		return nil
	}
	if !in.noSummaries && !in.inInit && fn.Signature.Results().Len() > 0 && in.isPure(fn, 0) {
		sym := false
		for _, a := range args {
			if hasSymbolic(a) {
				sym = true
				break
			}
		}
		if sym {
			if v, ok := in.callMerged(fr, fn, args, env, site); ok {
				in.e.summarised[fnName(fn)] = true
				return v
			}
		}
	}
	return in.callFn(fr, fn, args, env, site)
}
