package main

// Goroutines, channels, select, timers and the virtual clock.
//
// Each interpreted goroutine runs on its own host goroutine; a baton makes sure
// exactly one runs. Control changes hands only at visible operations (channel
// operations, go, exit, sync primitives, timers). Which runnable goroutine
// continues is a schedule decision; exploration is cooperative plus a bounded
// number of pre-emptions at visible operations.

import (
	"fmt"
	"go/types"
	"sort"
	"sync"

	"golang.org/x/tools/go/ssa"
)

type gState int

const (
	gRunnable gState = iota
	gBlocked
	gDone
)

type G struct {
	id      int
	state   gState
	wake    chan struct{}
	ready   func() bool
	why     string
	daemon  bool
	name    string
	started bool
	stack   []string // this goroutine's interpreted call stack (diagnostics)
	parked  bool     // voluntarily yielded (runOthers): resumed when nothing else can run
	vc      vclock   // race mode: this goroutine's vector clock
}

type abortG struct{}

type Sched struct {
	in       *Interp
	gs       []*G
	cur      *G
	aborted  bool
	preempt  int // remaining pre-emption budget on this path
	wg       sync.WaitGroup
	finished chan struct{}
	outcome  interface{} // value the path ended with (nil = ok)
	finOnce  bool
	timers   []*timerEv
	timerSeq int
}

type timerEv struct {
	at     int64 // virtual ns since path start
	seq    int
	ch     *ChanObj
	fn     func()
	active bool
	period int64
	loc    *StructLoc
	vc     vclock // race mode: clock of the goroutine that armed the timer
}

type ChanObj struct {
	id     int
	cap    int
	q      []Value
	closed bool
	sendq  []*pendingSend
	elemT  types.Type
	qvc    []vclock // race mode: the sender's clock for every queued value
}

type pendingSend struct {
	v     Value
	taken bool
	g     *G
	vc    vclock
}

type chanRecvKey struct{ c *ChanObj }
type chanCloseKey struct{ c *ChanObj }

func (c *ChanObj) qlen() int {
	if c == nil {
		return 0
	}
	return len(c.q)
}

func (in *Interp) ensureSched() *Sched {
	if in.sched == nil {
		panic("scheduler not initialised")
	}
	return in.sched
}

// runPath executes entry() as goroutine 0 and returns the value the path ended with.
func (in *Interp) runPath(entry func(), preempt int) (outcome interface{}) {
	s := &Sched{in: in, finished: make(chan struct{}), preempt: preempt}
	in.sched = s
	g0 := &G{id: 0, wake: make(chan struct{}, 1), name: "main", started: true}
	s.gs = []*G{g0}
	s.cur = g0
	in.curG = g0
	s.wg.Add(1)
	go func() {
		defer s.wg.Done()
		defer func() {
			r := recover()
			if _, ok := r.(abortG); ok {
				return
			}
			s.finish(r)
		}()
		entry()
		g0.state = gDone
	}()
	<-s.finished
	s.wg.Wait()
	return s.outcome
}

// finish ends the path (called by the baton holder).
func (s *Sched) finish(outcome interface{}) {
	if s.finOnce {
		return
	}
	s.finOnce = true
	s.outcome = outcome
	s.aborted = true
	for _, g := range s.gs {
		if g != s.cur && g.state != gDone && g.started {
			select {
			case g.wake <- struct{}{}:
			default:
			}
		}
	}
	close(s.finished)
}

func (s *Sched) runnable() []*G {
	var rs []*G
	for _, g := range s.gs {
		switch g.state {
		case gRunnable:
			rs = append(rs, g)
		case gBlocked:
			if g.ready != nil && g.ready() {
				rs = append(rs, g)
			}
		}
	}
	return rs
}

// transfer hands the baton to next and sleeps until it comes back.
func (s *Sched) transfer(next *G) {
	cur := s.cur
	if next == cur {
		return
	}
	cur.stack = s.in.e.callStack
	s.in.e.callStack = next.stack
	s.cur = next
	s.in.curG = next
	if !next.started {
		next.started = true
	}
	next.wake <- struct{}{}
	<-cur.wake
	if s.aborted {
		panic(abortG{})
	}
}

// yield is called at a visible operation while the current goroutine can continue.
func (s *Sched) yield(site string) {
	if s.preempt <= 0 || len(s.gs) == 1 {
		return
	}
	rs := s.runnable()
	if len(rs) <= 1 {
		return
	}
	// current first
	sort.SliceStable(rs, func(i, j int) bool { return rs[i] == s.cur && rs[j] != s.cur })
	k := s.in.e.Choice(len(rs), "preempt:"+site)
	if k == 0 {
		return
	}
	s.preempt--
	s.cur.state = gRunnable
	s.transfer(rs[k])
}

// block suspends the current goroutine until ready() holds.
func (s *Sched) block(ready func() bool, why string) {
	cur := s.cur
	for !ready() {
		cur.state = gBlocked
		cur.ready = ready
		cur.why = why
		next := s.pickNext(cur)
		if next == cur {
			break
		}
		s.transfer(next)
	}
	cur.state = gRunnable
	cur.ready = nil
	cur.why = ""
}

// pickNext chooses the next goroutine to run when cur cannot continue (blocked
// or done). Advances the virtual clock when only timers can make progress.
func (s *Sched) pickNext(cur *G) *G {
	for {
		rs := s.runnable()
		if len(rs) > 0 {
			k := 0
			if len(rs) > 1 {
				k = s.in.e.Choice(len(rs), "sched")
			}
			return rs[k]
		}
		for _, g := range s.gs {
			if g.parked && g.state != gDone {
				return g
			}
		}
		if s.fireNextTimer() {
			continue
		}
		// nothing can run
		s.deadlock(cur)
	}
}

func (s *Sched) deadlock(cur *G) {
	var desc []string
	for _, g := range s.gs {
		if g.state == gBlocked {
			desc = append(desc, fmt.Sprintf("g%d(%s): %s", g.id, g.name, g.why))
		}
	}
	panic(deadlockOutcome{desc})
}

type deadlockOutcome struct{ blocked []string }

// exitG is called when a non-main goroutine returns.
func (s *Sched) exitG(g *G) {
	g.state = gDone
	// hand the baton over; if nothing is runnable the main goroutine must be
	// blocked forever -> deadlock is raised in its context? No: raise here.
	next := s.pickNext(g)
	s.in.e.callStack = next.stack
	s.cur = next
	s.in.curG = next
	next.wake <- struct{}{}
}

func (in *Interp) goStmt(fr *frame, fn Value, args []Value, cc *ssa.CallCommon, site string) {
	s := in.ensureSched()
	g := &G{id: len(s.gs), wake: make(chan struct{}, 1), name: site}
	s.gs = append(s.gs, g)
	in.raceFork(g)
	s.wg.Add(1)
	go func() {
		defer s.wg.Done()
		<-g.wake
		if s.aborted {
			return
		}
		defer func() {
			r := recover()
			if r == nil {
				return
			}
			if _, ok := r.(abortG); ok {
				return
			}
			s.finish(r)
		}()
		gfr := &frame{in: in, g: g, fn: fr.fn}
		in.call(gfr, fn, args, cc, "go "+site)
		s.exitG(g)
	}()
	g.started = true
	s.yield("go:" + site)
}

// ---- channels -----------------------------------------------------------------

func (in *Interp) makeChan(fr *frame, instr *ssa.MakeChan) Value {
	sz := fr.get(instr.Size).(*Term)
	if !sz.IsConst() {
		panic(unsupported("make(chan) with symbolic size"))
	}
	return &ChanObj{id: nextID(), cap: int(sz.c), elemT: instr.Type().Underlying().(*types.Chan).Elem()}
}

func (c *ChanObj) canRecv() bool {
	return len(c.q) > 0 || c.closed || c.hasSender()
}

func (c *ChanObj) hasSender() bool {
	for _, p := range c.sendq {
		if !p.taken {
			return true
		}
	}
	return false
}

func (c *ChanObj) canSend(s *Sched) bool {
	if c.closed {
		return true // will panic
	}
	if len(c.q) < c.cap {
		return true
	}
	// unbuffered (or full): possible only when a receiver is blocked on this channel
	for _, g := range s.gs {
		if g.state == gBlocked && g.recvOn(c) {
			return true
		}
	}
	return false
}

// recvWaiters: goroutines blocked in a receive on c register here.
var recvWaiting = map[*G][]*ChanObj{}

func (g *G) recvOn(c *ChanObj) bool {
	for _, x := range recvWaiting[g] {
		if x == c {
			return true
		}
	}
	return false
}

func (in *Interp) chanSend(fr *frame, ch Value, v Value, site string) {
	s := in.ensureSched()
	c, _ := ch.(*ChanObj)
	if c == nil {
		s.block(func() bool { return false }, "send on nil channel at "+site)
		return
	}
	s.yield("send:" + site)
	if c.closed {
		panic(targetPanic{runtime: "send on closed channel", site: site})
	}
	if len(c.q) < c.cap {
		c.push(in, v, in.raceSnapshot())
		in.raceAcquire(chanRecvKey{c}) // earlier receives made the room (over-approximation)
		return
	}
	// must wait for a receiver (unbuffered) or for space (buffered, full)
	p := &pendingSend{v: v, g: s.cur, vc: in.raceSnapshot()}
	c.sendq = append(c.sendq, p)
	s.block(func() bool { return p.taken || c.closed }, "chan send at "+site)
	if !p.taken {
		// closed while waiting
		c.removePending(p)
		panic(targetPanic{runtime: "send on closed channel", site: site})
	}
	in.raceAcquire(chanRecvKey{c}) // the receive happens before the completion of the send
}

func (c *ChanObj) push(in *Interp, v Value, vc vclock) {
	c.q = append(c.q, v)
	if in.race != nil {
		c.qvc = append(c.qvc, vc)
	}
}

func (c *ChanObj) removePending(p *pendingSend) {
	for i, x := range c.sendq {
		if x == p {
			c.sendq = append(c.sendq[:i:i], c.sendq[i+1:]...)
			return
		}
	}
}

// take removes one value from c (which must be receivable and not merely closed-empty).
func (c *ChanObj) take(in *Interp) (Value, bool) {
	if len(c.q) > 0 {
		v := c.q[0]
		c.q = c.q[1:]
		if in.race != nil && len(c.qvc) > 0 {
			in.raceAcquireVC(c.qvc[0])
			c.qvc = c.qvc[1:]
		}
		// a blocked sender can now move its value into the buffer
		for _, p := range c.sendq {
			if !p.taken {
				p.taken = true
				c.push(in, p.v, p.vc)
				c.removePending(p)
				break
			}
		}
		in.raceRelease(chanRecvKey{c})
		return v, true
	}
	for _, p := range c.sendq {
		if !p.taken {
			p.taken = true
			c.removePending(p)
			in.raceAcquireVC(p.vc)
			in.raceRelease(chanRecvKey{c})
			return p.v, true
		}
	}
	if c.closed {
		in.raceAcquire(chanCloseKey{c})
	}
	return nil, false
}

func (in *Interp) chanRecv(fr *frame, ch Value, commaOk bool, site string) Value {
	s := in.ensureSched()
	c, _ := ch.(*ChanObj)
	if c == nil {
		s.block(func() bool { return false }, "receive from nil channel at "+site)
		return nil
	}
	s.yield("recv:" + site)
	if !c.canRecv() {
		g := s.cur
		recvWaiting[g] = append(recvWaiting[g], c)
		s.block(func() bool { return c.canRecv() }, "chan receive at "+site)
		delete(recvWaiting, g)
	}
	v, ok := c.take(in)
	if !ok {
		v = zero(c.elemT)
	}
	if commaOk {
		return TupleV{v, BoolT(ok)}
	}
	return v
}

func (in *Interp) chanClose(fr *frame, ch Value, site string) {
	s := in.ensureSched()
	c, _ := ch.(*ChanObj)
	if c == nil {
		panic(targetPanic{runtime: "close of nil channel", site: site})
	}
	s.yield("close:" + site)
	if c.closed {
		panic(targetPanic{runtime: "close of closed channel", site: site})
	}
	in.raceRelease(chanCloseKey{c})
	c.closed = true
}

func (in *Interp) selectStmt(fr *frame, instr *ssa.Select) Value {
	s := in.ensureSched()
	site := fr.site(instr)
	type cas struct {
		c    *ChanObj
		send bool
		v    Value
	}
	cases := make([]cas, len(instr.States))
	for i, st := range instr.States {
		c, _ := fr.get(st.Chan).(*ChanObj)
		cases[i] = cas{c: c, send: st.Dir == types.SendOnly}
		if cases[i].send {
			cases[i].v = fr.get(st.Send)
		}
	}
	s.yield("select:" + site)
	readyIdx := func() []int {
		var r []int
		for i, c := range cases {
			if c.c == nil {
				continue
			}
			if c.send {
				if c.c.canSend(s) {
					r = append(r, i)
				}
			} else if c.c.canRecv() {
				r = append(r, i)
			}
		}
		return r
	}
	rs := readyIdx()
	if len(rs) == 0 {
		if !instr.Blocking {
			return in.selectResult(instr, -1, nil, false)
		}
		g := s.cur
		for _, c := range cases {
			if c.c != nil && !c.send {
				recvWaiting[g] = append(recvWaiting[g], c.c)
			}
		}
		s.block(func() bool { return len(readyIdx()) > 0 }, "select at "+site)
		delete(recvWaiting, g)
		rs = readyIdx()
	}
	k := 0
	if len(rs) > 1 {
		k = in.e.Choice(len(rs), "select:"+site)
	}
	idx := rs[k]
	c := cases[idx]
	if c.send {
		if c.c.closed {
			panic(targetPanic{runtime: "send on closed channel", site: site})
		}
		// (when the queue is full the value is handed to a blocked receiver, which takes it on wake)
		c.c.push(in, c.v, in.raceSnapshot())
		in.raceAcquire(chanRecvKey{c.c})
		return in.selectResult(instr, idx, nil, false)
	}
	v, ok := c.c.take(in)
	if !ok {
		v = zero(c.c.elemT)
	}
	return in.selectResult(instr, idx, v, ok)
}

func (in *Interp) selectResult(instr *ssa.Select, idx int, recv Value, ok bool) Value {
	res := TupleV{I64(int64(idx)), BoolT(ok)}
	for i, st := range instr.States {
		if st.Dir == types.RecvOnly {
			if i == idx {
				res = append(res, recv)
			} else {
				res = append(res, zero(st.Chan.Type().Underlying().(*types.Chan).Elem()))
			}
		}
	}
	return res
}

// ---- timers / virtual clock ----------------------------------------------------

// timerLatency: a runtime timer never fires at its exact instant; the virtual
// clock delivers it one nanosecond late (the smallest representable latency).
const timerLatency = 1

type virtClock struct {
	sec0    *Term // wall seconds since year 1 at path start (symbolic)
	ns0     *Term // nanoseconds within the second at path start (symbolic, < 1e9)
	elapsed int64 // concrete virtual ns since path start
}

func (s *Sched) addTimer(d int64, ch *ChanObj, fn func(), period int64) *timerEv {
	clk := s.in.clock()
	if d < 0 {
		d = 0
	}
	s.timerSeq++
	t := &timerEv{at: clk.elapsed + d, seq: s.timerSeq, ch: ch, fn: fn, active: true, period: period, vc: s.in.raceSnapshot()}
	s.timers = append(s.timers, t)
	return t
}

func (s *Sched) fireNextTimer() bool {
	var best *timerEv
	for _, t := range s.timers {
		if !t.active {
			continue
		}
		if best == nil || t.at < best.at || (t.at == best.at && t.seq < best.seq) {
			best = t
		}
	}
	if best == nil {
		return false
	}
	clk := s.in.clock()
	if best.at+timerLatency > clk.elapsed {
		clk.elapsed = best.at + timerLatency
	}
	s.fire(best)
	return true
}

func (s *Sched) fire(t *timerEv) {
	if t.period > 0 {
		t.at += t.period
	} else {
		t.active = false
	}
	if t.fn != nil {
		t.fn()
		return
	}
	if t.ch != nil && len(t.ch.q) < t.ch.cap {
		t.ch.push(s.in, s.in.nowValue(), t.vc)
	}
}

// advance moves the virtual clock forward by d, firing due timers in order.
func (s *Sched) advance(d int64) {
	clk := s.in.clock()
	target := clk.elapsed + d
	for {
		var best *timerEv
		for _, t := range s.timers {
			if t.active && t.at <= target && (best == nil || t.at < best.at || (t.at == best.at && t.seq < best.seq)) {
				best = t
			}
		}
		if best == nil {
			break
		}
		if best.at+timerLatency > clk.elapsed {
			clk.elapsed = best.at + timerLatency
		}
		s.fire(best)
		s.runOthers() // goroutines woken by this timer run before more time passes
	}
	if target > clk.elapsed {
		clk.elapsed = target
	}
}

// runOthers lets every other runnable goroutine run until it blocks or ends
// (the caller stays runnable and continues afterwards).
func (s *Sched) runOthers() {
	cur := s.cur
	for i := 0; i < 10000; i++ {
		var next *G
		for _, g := range s.runnable() {
			if g != cur {
				next = g
				break
			}
		}
		if next == nil {
			return
		}
		cur.state = gBlocked
		cur.ready = func() bool { return false }
		cur.why = "yielding"
		s.yieldTo(cur, next)
		cur.state = gRunnable
		cur.ready = nil
	}
}

// yieldTo transfers to next; cur is resumed when no other goroutine can run.
func (s *Sched) yieldTo(cur, next *G) {
	cur.parked = true
	s.transfer(next)
	cur.parked = false
}
