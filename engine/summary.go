package main

// Summarised pure callees: a side-effect-free function with scalar results is
// explored on its own (nested DFS over its branches) and its results are
// merged into ite-terms over the callee's path conditions instead of forking
// the caller. This is the only state merging in the engine.

import (
	"go/types"

	"golang.org/x/tools/go/ssa"
)

type summaryCase struct {
	cond *Term
	res  Value
}

var purity = map[*ssa.Function]int{} // 0 unknown, 1 pure, 2 impure, 3 in progress

var pureIntrinsics = map[string]bool{
	"sync/atomic.LoadInt32": true, "sync/atomic.LoadInt64": true, "sync/atomic.LoadUint32": true, "sync/atomic.LoadUint64": true,
}

func scalarResults(sig *types.Signature) bool {
	res := sig.Results()
	if res.Len() == 0 {
		return false
	}
	for i := 0; i < res.Len(); i++ {
		b, ok := res.At(i).Type().Underlying().(*types.Basic)
		if !ok || basicWidth(b) < 0 {
			return false
		}
	}
	return true
}

func ownAlloc(v ssa.Value) bool {
	switch x := v.(type) {
	case *ssa.Alloc:
		return true
	case *ssa.FieldAddr:
		return ownAlloc(x.X)
	case *ssa.IndexAddr:
		return ownAlloc(x.X)
	}
	return false
}

func (in *Interp) isPure(fn *ssa.Function, depth int) bool {
	switch purity[fn] {
	case 1:
		return true
	case 2, 3:
		return false
	}
	if fn.Blocks == nil || depth > 4 {
		return false
	}
	purity[fn] = 3
	ok := true
	hasBranch := false
	for _, b := range fn.Blocks {
		for _, instr := range b.Instrs {
			switch x := instr.(type) {
			case *ssa.If:
				hasBranch = true
			case *ssa.Store:
				if !ownAlloc(x.Addr) {
					ok = false
				}
			case *ssa.Call:
				if x.Call.IsInvoke() {
					ok = false
					break
				}
				switch callee := x.Call.Value.(type) {
				case *ssa.Builtin:
					switch callee.Name() {
					case "len", "cap", "min", "max":
					default:
						ok = false
					}
				case *ssa.Function:
					name := fnName(callee)
					if pureIntrinsics[name] {
						break
					}
					if _, isIntr := intrinsics[name]; isIntr {
						ok = false
						break
					}
					if callee.Blocks == nil && callee.Pkg != nil && in.buildPkg != nil {
						in.buildPkg(callee.Pkg)
					}
					if !in.isPure(callee, depth+1) && !(purity[callee] == 2 && in.isPureNoBranch(callee, depth+1)) {
						ok = false
					}
				default:
					ok = false
				}
			case *ssa.MapUpdate, *ssa.Send, *ssa.Go, *ssa.Defer, *ssa.Select, *ssa.Panic, *ssa.MakeChan, *ssa.RunDefers,
				*ssa.MakeMap, *ssa.MakeSlice, *ssa.MakeClosure, *ssa.Range, *ssa.Next, *ssa.TypeAssert, *ssa.MakeInterface:
				ok = false
			}
			if !ok {
				break
			}
		}
		if !ok {
			break
		}
	}
	if ok && hasBranch && scalarResults(fn.Signature) {
		purity[fn] = 1
		return true
	}
	purity[fn] = 2
	pureNoBranch[fn] = ok
	return false
}

var pureNoBranch = map[*ssa.Function]bool{}

// isPureNoBranch: side-effect free helper (any result type) callable from a pure function.
func (in *Interp) isPureNoBranch(fn *ssa.Function, depth int) bool {
	return pureNoBranch[fn]
}

func hasSymbolic(v Value) bool {
	switch x := v.(type) {
	case *Term:
		return !x.IsConst()
	case StrV:
		return !x.isCon
	case BSlice:
		return x.obj != nil
	case GSlice:
		if x.arr == nil {
			return false
		}
		if x.len > 64 {
			return true
		}
		for i := 0; i < x.len; i++ {
			if c, ok := x.arr.elems[x.off+i].(*Cell); ok {
				if hasSymbolic(c.v) {
					return true
				}
			} else {
				return true
			}
		}
		return false
	case StructV:
		for _, f := range x {
			if hasSymbolic(f) {
				return true
			}
		}
	case *StructLoc, *Cell, *ArrayLoc, *ByteObj:
		return true
	}
	return false
}

// callMerged explores fn on its own and merges the results.
func (in *Interp) callMerged(fr *frame, fn *ssa.Function, args []Value, env []Value, site string) (Value, bool) {
	e := in.e
	if e.depth < len(e.stack) {
		d := e.stack[e.depth]
		if d.kind == "summary" {
			e.depth++
			return d.summary, true
		}
		if d.kind == "nosummary" {
			e.depth++
			return nil, false
		}
		panic("replay divergence: expected " + d.kind + " got summary at " + site)
	}
	base := len(e.stack)
	baseLevel := e.solver.level
	baseConds := len(e.pathConds)
	savedKnown := make(map[*Term]bool, len(e.known))
	for k, v := range e.known {
		savedKnown[k] = v
	}
	savedFlip := e.flipIndex
	savedStack := append([]string(nil), e.callStack...)
	var cases []summaryCase
	failed := false
	restore := func() {
		e.solver.PopTo(baseLevel)
		e.pathConds = e.pathConds[:baseConds]
		e.known = make(map[*Term]bool, len(savedKnown))
		for k, v := range savedKnown {
			e.known[k] = v
		}
		e.callStack = append(e.callStack[:0], savedStack...)
	}
	for iter := 0; ; iter++ {
		if iter > 256 {
			failed = true
			break
		}
		e.depth = base
		e.flipIndex = base // everything above base is (re)sent
		var res Value
		ok := func() (ok bool) {
			defer func() {
				if r := recover(); r != nil {
					switch r.(type) {
					case targetPanic, unsupportedErr:
						ok = false
					case pathEnd:
						if r.(pathEnd).outcome == "budget" {
							panic(r)
						}
						ok = false
					default:
						panic(r)
					}
				}
			}()
			res = in.callFn(fr, fn, args, env, site)
			return true
		}()
		if !ok {
			failed = true
			restore()
			break
		}
		cond := tTrue
		for _, c := range e.pathConds[baseConds:] {
			cond = And(cond, c)
		}
		cases = append(cases, summaryCase{cond, res})
		restore()
		// advance the sub-stack
		advanced := false
		for len(e.stack) > base {
			top := e.stack[len(e.stack)-1]
			if len(top.opts) > 1 {
				top.opts = top.opts[1:]
				advanced = true
				break
			}
			e.stack = e.stack[:len(e.stack)-1]
		}
		if !advanced {
			break
		}
	}
	e.stack = e.stack[:base]
	e.depth = base
	e.flipIndex = savedFlip
	if e.flipIndex > base {
		e.flipIndex = base
	}
	if failed {
		e.stack = append(e.stack, &decision{kind: "nosummary", opts: []int{0}, nopts: 1, levelBefore: baseLevel, site: site})
		e.depth++
		return nil, false
	}
	merged := mergeCases(cases)
	e.stack = append(e.stack, &decision{kind: "summary", opts: []int{0}, nopts: 1, levelBefore: baseLevel, site: site, summary: merged})
	e.depth++
	return merged, true
}

func mergeCases(cases []summaryCase) Value {
	last := cases[len(cases)-1].res
	switch last.(type) {
	case *Term:
		r := last.(*Term)
		for i := len(cases) - 2; i >= 0; i-- {
			r = Ite(cases[i].cond, cases[i].res.(*Term), r)
		}
		return r
	case TupleV:
		lt := last.(TupleV)
		out := make(TupleV, len(lt))
		for k := range lt {
			r := lt[k].(*Term)
			for i := len(cases) - 2; i >= 0; i-- {
				r = Ite(cases[i].cond, cases[i].res.(TupleV)[k].(*Term), r)
			}
			out[k] = r
		}
		return out
	}
	panic("mergeCases: unexpected result type")
}
