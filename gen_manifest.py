#!/usr/bin/env python3
"""Writes MANIFEST.json from checks.py (claimed checks) and NOT_APPLICABLE below."""
import json, sys, os
sys.path.insert(0, os.path.dirname(os.path.abspath(__file__)))
import checks as CFG

ALL = ["C%02d" % i for i in range(1, 19)]
m = {
    "version": 1,
    "setup_cmd": "cd /verif/engine && GOFLAGS=-mod=mod GOPROXY=off GOSUMDB=off GOTOOLCHAIN=local go build -o /verif/bin/symgo . && cd /verif/harness && cp /repo/go.sum go.sum && GOFLAGS=-mod=mod GOPROXY=off GOSUMDB=off GOTOOLCHAIN=local go vet ./vapi",
    "hooks": {
        "guard": "verif",
        "enable": "no hook is committed to /repo: harness shims (/verif/shims/<pkg>/zz_verif_shim.go, add-only exported accessors) are injected into existing package directories with go/packages Overlay and `go test -overlay`; the build tag `verif` is reserved",
        "baseline_off_cmd": "sh /verif/tools/repotest.sh",
        "source_commits": [],
        "add_only": True,
    },
    "engines": [{
        "name": "symgo",
        "path": "/verif/engine",
        "serves_properties": sorted(CFG.CHECKS.keys()),
        "kind_free_text": "symbolic executor for go/ssa written for this task: stateless DFS over control decisions with deterministic replay, data symbolic (bit-vectors + functional byte arrays), every branch feasibility / assertion / implicit Go run-time check discharged by z3 over an incremental pipe; counterexamples and a sample of passing paths are replayed natively against the real build",
    }],
    "checks": [],
    "not_applicable": [],
    "notes": "All checks: python3 /verif/vcheck.py <ID> --tier quick|thorough. Exit 0 ok, 1 VIOLATION (natively reproduced), 2 INCONCLUSIVE. See DESIGN.md.",
}
for pid in ALL:
    if pid in CFG.CHECKS:
        c = CFG.CHECKS[pid]
        m["checks"].append({
            "property_id": pid,
            "quick_cmd": f"python3 /verif/vcheck.py {pid} --tier quick",
            "thorough_cmd": f"python3 /verif/vcheck.py {pid} --tier thorough",
            "evidence_file": f"/verif/evidence/{pid}.json",
            "replay_cmd_template": "python3 /verif/vcheck.py --replay {path}",
            "engine": "symgo",
            "level_claimed": {"category": "model_checking", "text": c.get("level_text", ""), "design_ref": c.get("design_ref", "DESIGN.md section 5 " + pid)},
            "level_note": c.get("level_note", ""),
            "technique": c.get("technique", "bounded symbolic execution of the repository's go/ssa with SMT (z3) deciding every path condition, assertion and implicit run-time check; native replay of counterexamples"),
        })
    else:
        m["not_applicable"].append({"property_id": pid, "reason": CFG.NOT_APPLICABLE.get(pid, "check not built yet")})
json.dump(m, open(os.path.join(os.path.dirname(os.path.abspath(__file__)), "MANIFEST.json"), "w"), indent=1)
print("claimed:", [c["property_id"] for c in m["checks"]])
