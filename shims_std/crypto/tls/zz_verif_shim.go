package tls

// Verification shim (injected by overlay into the standard library's crypto/tls;
// nothing on disk is modified). It exposes the server's own ClientHello parser so
// that the layer4 TLS matcher can be compared with it.

import "context"

// VerifUnmarshalClientHello parses a ClientHello handshake message exactly as
// a crypto/tls server does and maps it to the ClientHelloInfo the server hands
// to GetConfigForClient / GetCertificate.
func VerifUnmarshalClientHello(data []byte) (bool, *ClientHelloInfo) {
	m := new(clientHelloMsg)
	if !m.unmarshal(data) {
		return false, nil
	}
	return true, clientHelloInfo(context.Background(), &Conn{config: &Config{}}, m)
}
