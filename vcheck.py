#!/usr/bin/env python3
"""vcheck: driver for the solver-based checks (see DESIGN.md section 4).

  vcheck.py <ID> [--tier quick|thorough]     run the check of one property
  vcheck.py --replay <replay.json>           replay a counterexample natively

Exit 0: every obligation discharged inside the registered bound (KNOWN-FINDING lines possible)
Exit 1: VIOLATION property=<id> replay=<path>  (solver counterexample that reproduced natively)
Exit 2: INCONCLUSIVE property=<id> reason=...
"""
import sys, os, json, subprocess, time, hashlib, argparse, shutil, re, concurrent.futures

ROOT = os.path.dirname(os.path.abspath(__file__))
sys.path.insert(0, ROOT)
import checks as CFG  # noqa: E402

ENV = dict(os.environ, GOFLAGS="-mod=mod", GOPROXY="off", GOSUMDB="off", GOTOOLCHAIN="local")
SYMGO = os.path.join(ROOT, "bin", "symgo")
HARNESS_DIR = os.path.join(ROOT, "harness")
REPO = os.environ.get("VERIF_REPO", "/repo")  # VERIF_REPO: run against another checkout (mutant triage); registered commands use /repo


def log(*a):
    print(*a, file=sys.stderr, flush=True)


def ensure_symgo():
    src = os.path.join(ROOT, "engine")
    need = not os.path.exists(SYMGO)
    if not need:
        mt = os.path.getmtime(SYMGO)
        for f in os.listdir(src):
            if f.endswith(".go") and os.path.getmtime(os.path.join(src, f)) > mt:
                need = True
    if need:
        os.makedirs(os.path.join(ROOT, "bin"), exist_ok=True)
        r = subprocess.run(["go", "build", "-o", SYMGO, "."], cwd=src, env=ENV, capture_output=True, text=True)
        if r.returncode != 0:
            log(r.stderr)
            raise SystemExit(inconclusive_exit("-", "engine does not build"))


def private_harness(work):
    """With VERIF_REPO set, the harness module is copied and pointed at that checkout."""
    global HARNESS_DIR
    if REPO == "/repo":
        return
    dst = os.path.join(work, "harness")
    shutil.copytree(os.path.join(ROOT, "harness"), dst)
    gm = open(os.path.join(dst, "go.mod")).read().replace("=> /repo", "=> " + REPO)
    open(os.path.join(dst, "go.mod"), "w").write(gm)
    HARNESS_DIR = dst


def make_overlay(work):
    """Shims are injected into existing /repo package directories by overlay; nothing is written into /repo."""
    rep = {}
    shims = os.path.join(ROOT, "shims")
    for d, _, files in os.walk(shims):
        for f in files:
            if f.endswith(".go"):
                rel = os.path.relpath(d, shims)
                rep[os.path.join(REPO, rel, f)] = os.path.join(d, f)
    # shims for the standard library (crypto/tls: the server's own ClientHello parser, C07)
    goroot = subprocess.run(["go", "env", "GOROOT"], capture_output=True, text=True, env=ENV).stdout.strip()
    std = os.path.join(ROOT, "shims_std")
    for d, _, files in os.walk(std):
        for f in files:
            if f.endswith(".go"):
                rep[os.path.join(goroot, "src", os.path.relpath(d, std), f)] = os.path.join(d, f)
    p = os.path.join(work, "overlay.json")
    with open(p, "w") as fh:
        json.dump({"Replace": rep}, fh)
    # keep the harness module's go.sum in step with the repository's
    try:
        shutil.copyfile(os.path.join(REPO, "go.sum"), os.path.join(HARNESS_DIR, "go.sum"))
    except OSError:
        pass
    return p


def inconclusive_exit(pid, reason):
    print(f"INCONCLUSIVE property={pid} reason={reason}")
    return 2


def _die_with_parent():
    """Child processes (symgo, native runners) are killed by the kernel when this driver dies,
    so a timeout that kills the driver leaves no orphan solver processes behind."""
    try:
        import ctypes, signal
        ctypes.CDLL("libc.so.6").prctl(1, signal.SIGKILL)  # PR_SET_PDEATHSIG
    except Exception:
        pass


def harness_job(tier, h):
    name = h["name"]
    pkg, fn = name.split(".")
    t = dict(h.get("opts", {}))
    t.update(h.get(tier, {}))
    job = {"harness": f"verifharness/{pkg}.{fn}", "params": t.get("params", {}),
           "unwind": t.get("unwind", 64), "alloc_limit": t.get("alloc_limit", 0), "preempt": t.get("preempt", 0),
           "pool_adversarial": bool(t.get("pool_adversarial")), "budget_s": t.get("budget_s", 0), "max_paths": t.get("max_paths", 0),
           "traces": t.get("traces", 40 if tier == "quick" else 200), "trace_every": t.get("trace_every", 1),
           "timeout_ms": t.get("timeout_ms", 20000 if tier == "quick" else 120000), "no_summaries": bool(t.get("no_summaries")), "race": bool(t.get("race"))}
    return job, t


def run_group(gi, tier, hs, work, overlay):
    """One symgo process (one load of the repository's SSA) runs a group of harnesses sequentially."""
    jobs, ts = [], []
    pkgs = []
    for h in hs:
        j, t = harness_job(tier, h)
        jobs.append(j)
        ts.append(t)
        p = "verifharness/" + h["name"].split(".")[0]
        if p not in pkgs:
            pkgs.append(p)
    jf = os.path.join(work, f"jobs-{gi}.json")
    out = os.path.join(work, f"group-{gi}.json")
    json.dump(jobs, open(jf, "w"))
    cmd = [SYMGO, "-dir", HARNESS_DIR, "-overlay", overlay, "-jobs", jf, "-out", out]
    for p in pkgs:
        cmd += ["-pkg", p]
    t0 = time.time()
    r = subprocess.run(cmd, cwd=HARNESS_DIR, env=ENV, capture_output=True, text=True, preexec_fn=_die_with_parent)
    wall = time.time() - t0
    got = []
    if os.path.exists(out):
        try:
            got = json.load(open(out))
        except Exception:
            got = []
    results = []
    for i, h in enumerate(hs):
        if i < len(got):
            res = got[i]
        else:
            res = {"harness": h["name"], "paths": 0, "ok_paths": 0, "decisions": 0, "queries": 0, "violations": [],
                   "inconclusive": ["engine failed: " + (r.stdout + r.stderr)[-600:]], "covers": {}, "traces": [],
                   "samples": [], "functions_encoded": [], "intrinsics": [], "stubs": [], "assumptions": [],
                   "exhaustive": False, "solver_time_s": 0, "queries_sat": 0, "queries_unsat": 0, "queries_unknown": 0}
        res["harness"] = h["name"]
        res["display"] = h["name"] + ("#" + h["variant"] if h.get("variant") else "")
        res["proc_wall_s"] = res.get("wall_s", 0)
        res["params"] = ts[i].get("params", {})
        res["alloc_limit"] = ts[i].get("alloc_limit", 0)
        results.append(res)
    return results


_runner_lock = None


def build_runner(work, overlay):
    """Compile the native runner (real build of /repo + shims via overlay)."""
    binp = os.path.join(work, "runner.test")
    r = subprocess.run(["go", "test", "-c", "-vet=off", "-overlay", overlay, "-o", binp, "./runner"],
                       cwd=HARNESS_DIR, env=ENV, capture_output=True, text=True)
    if r.returncode != 0:
        log(r.stdout[-3000:], r.stderr[-3000:])
        return None
    return binp


_race_runner = {}


def build_race_runner(work, overlay):
    """The native runner built with the Go race detector (lazily, only when a race is to be confirmed)."""
    if "bin" in _race_runner:
        return _race_runner["bin"]
    binp = os.path.join(work, "runner-race.test")
    r = subprocess.run(["go", "test", "-c", "-race", "-vet=off", "-overlay", overlay, "-o", binp, "./runner"],
                       cwd=HARNESS_DIR, env=dict(ENV, CGO_ENABLED="1"), capture_output=True, text=True)
    if r.returncode != 0:
        log("race runner does not build:", r.stdout[-1500:], r.stderr[-1500:])
        binp = None
    _race_runner["bin"] = binp
    return binp


def confirm_race(v, case, work, overlay, tag):
    """Replays the case under `go test -race`: the happens-before race predicted by the engine must be
    reported by the Go race detector at (one of) the same source lines."""
    binp = build_race_runner(work, overlay)
    if not binp:
        return False, "race runner unavailable"
    c = dict(case)
    c["repeat"] = 1
    cpath = os.path.join(work, f"cases-{tag}.json")
    json.dump([c], open(cpath, "w"))
    sites = re.findall(r"@([\w/.\-]+\.go:\d+)", v["label"])
    out = ""
    for attempt in range(8):
        try:
            r = subprocess.run([binp, "-test.run", "TestRun", "-test.timeout", "120s", "-cases", cpath, "-out", os.path.join(work, f"native-{tag}.json")],
                               cwd=os.path.join(HARNESS_DIR, "runner"), env=dict(ENV, GORACE="halt_on_error=0"), capture_output=True, text=True, timeout=150)
            out = r.stdout + r.stderr
        except subprocess.TimeoutExpired:
            continue
        if "WARNING: DATA RACE" in out:
            hit = [s_ for s_ in sites if s_ in out]
            if hit:
                return True, "go race detector reports the same race natively at " + ", ".join(hit)
    if "WARNING: DATA RACE" in out:
        return False, "go race detector reports a race, but not at the predicted lines"
    return False, "go race detector silent in 8 native runs"


def run_native(binp, cases, work, tag, timeout=600):
    """Each case runs in its own batch process so a crash/deadlock is attributed correctly."""
    cpath = os.path.join(work, f"cases-{tag}.json")
    opath = os.path.join(work, f"native-{tag}.json")
    json.dump(cases, open(cpath, "w"))
    if os.path.exists(opath):
        os.remove(opath)
    try:
        r = subprocess.run([binp, "-test.run", "TestRun", "-test.timeout", f"{timeout}s", "-cases", cpath, "-out", opath],
                           cwd=os.path.join(HARNESS_DIR, "runner"), env=ENV, capture_output=True, text=True, timeout=timeout + 30)
        crashed = r.returncode != 0
        tail = (r.stdout + r.stderr)[-3000:]
    except subprocess.TimeoutExpired:
        crashed, tail = True, "native run timed out"
    if os.path.exists(opath):
        return json.load(open(opath)), None
    return None, tail if crashed else "no output"


def load_known():
    p = os.path.join(ROOT, "known_findings.json")
    if not os.path.exists(p):
        return []
    return json.load(open(p)).get("findings", [])


def match_known(pid, hname, v, known):
    for k in known:
        if k.get("property") != pid or k.get("status") != "known":
            continue
        if k.get("harness") and k["harness"] != hname:
            continue
        if k.get("kind") and k["kind"] != v["kind"]:
            continue
        if k.get("site") and k["site"] not in v.get("site", ""):
            continue
        if k.get("label") and k["label"] not in v.get("label", ""):
            continue
        return k
    return None


def native_confirms(v, nres):
    """Does the native run show the same kind of failure the solver predicted?"""
    if nres is None or nres.get("missing_harness"):
        return False, "no native result"
    if nres.get("assume_violated"):
        return False, "model violates a harness assumption natively"
    kind = v["kind"]
    if kind == "panic":
        if nres.get("panic"):
            return True, nres["panic"]
        return False, "no panic natively"
    if kind == "assert":
        if v["label"] in (nres.get("failures") or []):
            return True, "assertion failed natively: " + v["label"]
        if nres.get("failures"):
            return True, "assertion failed natively: " + ",".join(nres["failures"])
        if nres.get("panic"):
            return True, "panic natively: " + nres["panic"]
        return False, "assertion held natively"
    if kind == "alloc":
        if nres.get("alloc_over_limit") or nres.get("panic"):
            return True, f"allocated {nres.get('alloc_bytes')} bytes"
        return False, f"allocated only {nres.get('alloc_bytes')} bytes natively"
    if kind == "deadlock":
        return False, "deadlock replay not supported natively"
    return False, "unknown kind"


def main():
    ap = argparse.ArgumentParser()
    ap.add_argument("pid", nargs="?")
    ap.add_argument("--tier", default=os.environ.get("VERIF_TIER", "quick"))
    ap.add_argument("--replay")
    ap.add_argument("--only", help="run only harnesses whose name contains this")
    ap.add_argument("--jobs", type=int, default=int(os.environ.get("VERIF_JOBS", "6")))
    ap.add_argument("--keep", action="store_true")
    args = ap.parse_args()
    seed = int(os.environ.get("VERIF_SEED", "0") or 0)

    if args.replay:
        return do_replay(args.replay)
    pid = args.pid
    if pid not in CFG.CHECKS:
        print(f"unknown property {pid}")
        return 2
    tier = args.tier if args.tier in ("quick", "thorough") else "quick"
    spec = CFG.CHECKS[pid]
    t0 = time.time()
    work = os.path.join(ROOT, ".work", f"{pid}-{tier}" + ("" if REPO == "/repo" else "-" + os.path.basename(REPO)))
    shutil.rmtree(work, ignore_errors=True)
    os.makedirs(work, exist_ok=True)
    ensure_symgo()
    private_harness(work)
    overlay = make_overlay(work)
    hs = [h for h in spec["harnesses"] if tier in h.get("tiers", ("quick", "thorough"))]
    if args.only:
        hs = [h for h in hs if args.only in h["name"] + "#" + h.get("variant", "")]

    # symbolic runs (a few processes, each loading the SSA once) in parallel with the native runner build
    ngroups = max(1, min(args.jobs, len(hs)))
    order = sorted(range(len(hs)), key=lambda i: -hs[i].get("weight", 1))
    groups = [[] for _ in range(ngroups)]
    loads = [0] * ngroups
    for i in order:
        g = loads.index(min(loads))
        groups[g].append(i)
        loads[g] += hs[i].get("weight", 1)
    groups = [g for g in groups if g]
    with concurrent.futures.ThreadPoolExecutor(max_workers=len(groups) + 1) as ex:
        fut_runner = ex.submit(build_runner, work, overlay)
        futs = [ex.submit(run_group, gi, tier, [hs[i] for i in g], work, overlay) for gi, g in enumerate(groups)]
        results = [None] * len(hs)
        for g, f in zip(groups, futs):
            for i, res in zip(g, f.result()):
                results[i] = res
        runner = fut_runner.result()

    known = load_known()
    reasons = []
    violations = []  # (harness, violation, replay path, native detail)
    known_hits = []
    if runner is None:
        reasons.append("native runner does not build against the current tree")

    # ---- counterexamples: replay natively before reporting ----------------------
    os.makedirs(os.path.join(ROOT, "replays", pid), exist_ok=True)
    for h, res in zip(hs, results):
        for v in res["violations"]:
            k = match_known(pid, res["harness"], v, known)
            case = {"harness": res["harness"], "inputs": v["inputs"], "choices": v.get("choices") or [],
                    "params": res.get("params", {}), "alloc_limit": res.get("alloc_limit", 0)}
            if any(k.startswith("rand.") for k in v["inputs"]):
                case["repeat"] = 200000  # directed repetition until the draws line up
            hsh = hashlib.sha256(json.dumps([case, v["label"], v["site"]], sort_keys=True).encode()).hexdigest()[:12]
            rpath = os.path.join(ROOT, "replays", pid, f"{res['display'].replace('#', '_')}-{hsh}.json")
            json.dump({"property": pid, "harness": res["harness"], "label": v["label"], "kind": v["kind"], "site": v["site"],
                       "detail": v.get("detail", ""), "stack": v.get("stack", []), "case": case}, open(rpath, "w"), indent=1)
            if k is not None:
                known_hits.append((k, v, rpath))
                continue
            ok, detail = (False, "runner unavailable")
            if runner:
                if v["kind"] == "race":
                    ok, detail = confirm_race(v, case, work, overlay, "race-" + hsh)
                elif h.get("native_replay", True):
                    nres, err = run_native(runner, [case], work, "replay-" + hsh, timeout=120)
                    if nres:
                        ok, detail = native_confirms(v, nres[0])
                    else:
                        # the process died: a Go panic in another goroutine / fatal error kills the runner too
                        if err and ("panic:" in err or "fatal error:" in err):
                            ok, detail = True, err[-600:]
                        else:
                            ok, detail = False, "native runner failed: " + (err or "")[-300:]
                else:
                    ok, detail = False, "harness has no native twin"
                if not ok and h.get("env_only"):
                    # the harness only stubs the environment (network dial, clock, scheduler): the solver's
                    # counterexample concerns repository code alone and is reported without native replay
                    ok, detail = True, "symbolic counterexample; environment stubbed, not natively replayable (" + detail[:120] + ")"
            if ok:
                violations.append((res["display"], v, rpath, detail))
            else:
                reasons.append(f"counterexample of {res['display']} [{v['label']} at {v['site']}] did not reproduce natively ({detail}); replay={rpath}")

    # ---- translator validation: passing paths replayed against the real build ----
    validated = 0
    mismatches = []
    if runner:
        for h, res in zip(hs, results):
            if not h.get("validate", True) or not res.get("traces"):
                continue
            cases = [{"harness": res["harness"], "inputs": tr["inputs"], "choices": tr.get("choices") or [],
                      "params": res.get("params", {})} for tr in res["traces"]]
            nres, err = run_native(runner, cases, work, "val-" + res["display"].replace("#", "_"))
            if nres is None:
                reasons.append(f"path-replay validation of {res['harness']} crashed: {(err or '')[-300:]}")
                continue
            for tr, nr in zip(res["traces"], nres):
                if nr.get("panic") or nr.get("failures") or nr.get("assume_violated") or (nr.get("trace") or []) != (tr["log"] or []):
                    mismatches.append({"harness": res["display"], "inputs": tr["inputs"], "symbolic": tr["log"],
                                       "native": nr.get("trace"), "panic": nr.get("panic"), "failures": nr.get("failures"),
                                       "assume": nr.get("assume_violated")})
                else:
                    validated += 1
        if mismatches:
            json.dump(mismatches, open(os.path.join(work, "mismatches.json"), "w"), indent=1)
            m = mismatches[0]
            reasons.append(f"translator disagreement on {len(mismatches)} paths, first: {m['harness']} symbolic={m['symbolic']} native={m['native']} panic={m['panic']} failures={m['failures']} assume={m['assume']}")

    # ---- inconclusive reasons, witnesses ---------------------------------------------
    for h, res in zip(hs, results):
        for r in res["inconclusive"]:
            reasons.append(f"{res['display']}: {r}")
        for c in h.get("covers", []):
            if res.get("covers", {}).get(c, 0) == 0 and not any(c in (kk.get("blocks_covers") or []) for kk, _, _ in known_hits):
                reasons.append(f"{res['display']}: reachability witness '{c}' not hit")
        if res.get("ok_paths", 0) == 0 and not res["violations"] and not res["inconclusive"]:
            reasons.append(f"{res['display']}: no path completed (vacuous harness)")

    wall = time.time() - t0
    # ---- evidence -----------------------------------------------------------------------
    samples = []
    for res in results:
        for s in (res.get("samples") or [])[:2]:
            samples.append({"harness": res["display"], "inputs": s["inputs"], "choices": s.get("choices"), "trace": s["log"]})
    if not samples:
        for res in results:
            for v in res["violations"][:1]:
                samples.append({"harness": res["harness"], "counterexample": v["inputs"], "label": v["label"]})
    fe = sorted({f for res in results for f in res.get("functions_encoded", [])})
    repo_fns = [f for f in fe if "github.com/mholt/caddy-l4" in f]
    hashes = {}
    for res in results:
        hashes.update(res.get("repo_file_hashes") or {})
    ev = {
        "property_id": pid, "tier": tier, "seed": seed, "level": "model_checking",
        "coverage": {
            "states": sum(r["paths"] for r in results),
            "transitions": max(1, sum(r["decisions"] for r in results)),
            "traces_validated_against_impl": validated,
            "samples": samples or [{"note": "no completed path"}],
            "exhaustive": all(r.get("exhaustive") for r in results) and not reasons,
            "rule": "a state is one completed symbolic path (all data symbolic along it); a transition is one explored control decision; every decision's feasibility and every assertion / implicit Go run-time check is an SMT query",
            "harnesses": [{"name": r["display"], "paths": r["paths"], "ok_paths": r.get("ok_paths"), "decisions": r["decisions"],
                           "queries": r["queries"], "sat": r.get("queries_sat"), "unsat": r.get("queries_unsat"),
                           "unknown": r.get("queries_unknown"), "solver_time_s": round(r.get("solver_time_s", 0), 2),
                           "wall_s": round(r.get("proc_wall_s", 0), 1), "params": r.get("params"), "unwind": r.get("unwind"),
                           "exhaustive": r.get("exhaustive"), "witnesses_hit": r.get("covers"), "ssa_steps": r.get("ssa_steps"),
                           "paths_not_natively_validatable": r.get("paths_not_natively_validatable", 0),
                           "summarised_pure_callees": r.get("summarised_pure_callees"),
                           "violations": len(r["violations"])} for r in results],
            "queries": sum(r["queries"] for r in results),
            "solver": "z3 4.8.12 (one incremental process per harness, push/pop mirrors the decision stack)",
            "solver_time_s": round(sum(r.get("solver_time_s", 0) for r in results), 2),
            "functions_encoded_repo": repo_fns,
            "functions_encoded_total": len(fe),
            "functions_encoded_other": [f for f in fe if f not in repo_fns][:400],
            "repo_source_hashes": hashes,
            "intrinsics": sorted({f for res in results for f in res.get("intrinsics", [])}),
            "stubs": sorted({f for res in results for f in res.get("stubs", [])}),
            "bounds": spec.get("bounds", {}).get(tier, spec.get("bounds", "")),
            "outside_claim": spec.get("outside", []),
            "known_findings_hit": [k["key"] for k, _, _ in known_hits],
            "inconclusive_reasons": reasons,
        },
        "assumptions": sorted(set(spec.get("assumptions", [])) | {a for res in results for a in (res.get("assumptions") or [])}),
        "wall_s": round(wall, 1),
        "violations": len(violations),
    }
    evdir = os.path.join(ROOT, "evidence") if REPO == "/repo" else work
    os.makedirs(evdir, exist_ok=True)
    json.dump(ev, open(os.path.join(evdir, pid + ".json"), "w"), indent=1)
    validate_evidence(os.path.join(evdir, pid + ".json"))

    for r in results:
        log(f"  {r['display']}: paths={r['paths']} ok={r.get('ok_paths')} decisions={r['decisions']} queries={r['queries']} "
            f"solver={r.get('solver_time_s', 0):.1f}s wall={r.get('proc_wall_s', 0):.1f}s violations={len(r['violations'])} inconclusive={len(r['inconclusive'])}")
    log(f"  traces validated natively: {validated}; wall {wall:.1f}s")
    seen = set()
    for k, v, rpath in known_hits:
        if k["key"] not in seen:
            seen.add(k["key"])
            print(f"KNOWN-FINDING: property={pid} {k['what']} [{k['key']}] replay={os.path.relpath(rpath, ROOT)}")
    if violations:
        for hname, v, rpath, detail in violations:
            log(f"  violation in {hname}: {v['label']} at {v['site']} inputs={json.dumps(v['inputs'])[:300]} native: {detail[:200]}")
        hname, v, rpath, detail = violations[0]
        for hname, v, rpath, detail in violations:
            print(f"VIOLATION property={pid} replay={rpath}")
        return 1
    if reasons:
        for r in reasons[:20]:
            log("  inconclusive: " + r)
        return inconclusive_exit(pid, reasons[0].replace("\n", " ")[:300])
    print(f"OK property={pid} tier={tier} paths={ev['coverage']['states']} queries={ev['coverage']['queries']} validated={validated} wall={wall:.0f}s")
    if not args.keep:
        shutil.rmtree(work, ignore_errors=True)
    return 0


def validate_evidence(path):
    schema_p = "/root/.vp/EVIDENCE.schema.json"
    if not os.path.exists(schema_p):
        return
    try:
        import jsonschema  # type: ignore
    except Exception:
        return
    try:
        jsonschema.validate(json.load(open(path)), json.load(open(schema_p)))
    except Exception as e:  # pragma: no cover
        log("evidence does not validate: " + str(e)[:300])


def do_replay(path):
    rp = json.load(open(path))
    pid = rp.get("property", "?")
    work = os.path.join(ROOT, ".work", "replay-" + str(os.getpid()))
    os.makedirs(work, exist_ok=True)
    try:
        overlay = make_overlay(work)
        runner = build_runner(work, overlay)
        if runner is None:
            return inconclusive_exit(pid, "native runner does not build")
        nres, err = run_native(runner, [rp["case"]], work, "replay", timeout=120)
        v = {"kind": rp["kind"], "label": rp["label"]}
        if nres:
            ok, detail = native_confirms(v, nres[0])
            print(json.dumps(nres[0], indent=1)[:3000])
        else:
            ok = bool(err and ("panic:" in err or "fatal error:" in err))
            detail = (err or "")[-1500:]
        print(("REPRODUCED: " if ok else "NOT REPRODUCED: ") + detail)
        if ok:
            print(f"VIOLATION property={pid} replay={path}")
            return 1
        return 0
    finally:
        shutil.rmtree(work, ignore_errors=True)


if __name__ == "__main__":
    sys.exit(main())
